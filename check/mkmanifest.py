#!/usr/bin/env python3
"""Regenerates /verif/MANIFEST.json from the table below (kept in one place so it stays valid)."""
import json, os

CLAIMED = {
 'C01': dict(
   text=("Proof (Lean 4): for every well-formed ClientHello h and hash H, ja3Header H (serialize h) = hex(H(ja3Spec h)) "
         "(ja3_of_hello: parseBasic∘serialize = basicOf for every HelloWF hello, by induction over the extension list; "
         "bare_eq_spec: ja3.Bare equals the JA3 specification string for all list shapes, GREASE anywhere), over the GREASE "
         "table regenerated from the source; the byte-level parser is a line-by-line model of tlsx tied to the code by an "
         "exact differential (value / error class / panic)"),
   note=("Trusted: Lean kernel + propext/Classical.choice/Quot.sound; the go/ast translator; the correspondence harness; "
         "tlsx is mirrored, not verified; MD5 is a parameter; crypto/tls acceptance assumed to imply well-formedness"),
   technique="Lean 4 theorem over regenerated table + model/implementation differential with spec oracle",
   design='7/C01'),
 'C02': dict(
   text=("Proof (Lean 4): for every well-formed ClientHello h and truncated hash T, ja4Header T (serialize h) = ja4Spec T h "
         "(ja4_of_hello: parseView∘serialize = viewOf for every HelloWF4 hello by induction over the extension list incl. the "
         "server_name / ALPN / signature_algorithms / supported_versions body parsers; ja4_view_eq_spec: version, SNI flag, counts, "
         "ALPN code, sorted cipher and extension lists, signature algorithms of the parsed view are the specification's). "
         "JA4 is invariant under every permutation of the cipher list and of the extension list (ja4_perm; sort "
         "uniqueness, commutative version maximum) and under GREASE values added to ciphers, extensions, supported_versions and "
         "signature_algorithms (grease_*), has the form a_b_c with saturating two-digit counts (ja4_form, count_saturates), for any "
         "truncated hash T; tables/format facts regenerated from pkg/ja4; model of utls FromRaw + pkg/ja4 tied to the code by an "
         "exact differential, spec oracle over structured hellos"),
   note=("Trusted: Lean kernel + standard axioms; translator; harness. utls v1.6.0 is mirrored for the generic walk and the five "
         "extension bodies JA4 reads; bodies of other utls-validated types are opaque (model answers conditionally; finding D10 "
         "boundary). SHA-256 is a parameter. Found and fixed D11 (fix: commit e6ff494)"),
   technique="Lean 4 invariance theorems (permutation, GREASE) + differential with spec oracle",
   design='7/C02'),
 'C03': dict(
   text=("Proof (Lean 4): for every history of delivered frames and every limit n, Marshal applied to what the capture blocks of "
         "processFrame accumulate equals the specification S|WU|P|PS (latest non-ACK SETTINGS, first WINDOW_UPDATE, all priorities "
         "in order cut to n, pseudo letters of the latest block) and always has exactly four '|'-parts; Marshal's literals are "
         "regenerated from the source; model tied to the real serverConn (deterministic tester, metadata context) and to Marshal "
         "by exact differentials"),
   note=("Trusted: Lean kernel + standard axioms; translator; harnesses (upstream serverTester as driver). Hypotheses: delivered "
         "WINDOW_UPDATE increments are non-zero and delivered header blocks passed checkPseudos (framer facts, C19); %d/%02d "
         "modelled by own functions. The instant at which a concurrent handler reads the record is C07's subject"),
   technique="Lean 4 theorem (fold of capture = spec extraction; rendering lemmas) + function-level and server-level differential",
   design='7/C03'),
 'C04': dict(
   text=("Proof (Lean 4): for every segmentation of every byte stream, the state of the capture wrapper is a function of the "
         "bytes delivered only, and GetClientHello reports exactly the first TLS record or nothing (capture_exact, "
         "segmentation_independent, capture_stable, capture_none_*); constants regenerated from the source; model tied to the "
         "real HijackClientHelloConn by an exact differential including all segmentations of short streams"),
   note=("Trusted: Lean kernel + standard axioms; translator; harness. Assumes reads never return data together with an error, "
         "bytes.Buffer semantics, declared length <= 65530 (wrap beyond is documented, outside the quantifier). "
         "Transparency is structural in the model (Read returns the chunk untouched) and validated by the differential"),
   technique="Lean 4 invariant proof (state = canonical function of delivered bytes) + exhaustive/random differential",
   design='7/C04'),
 'C05': dict(
   text=("Proof (Lean 4): for every inbound header map, injector list and outcome assignment, after rewriteFunc the header "
         "under every injected name holds exactly the proxy's value or nothing (no_spoof, at_most_one); rewriteFunc's statement "
         "sequence is regenerated from the source; model tied to the real HTTPHandler by an exact differential with scripted injectors"),
   note=("Trusted: Lean kernel + standard axioms; translator; harness. httputil.ReverseProxy's prelude and header canonicalisation are "
         "assumed contracts (mirrored and compared). Found and fixed D1 (fix: commit e511b47)"),
   technique="Lean 4 theorem over the injector fold + handler-level differential with spec oracle",
   design='7/C05'),
 'C06': dict(
   text=("Proof (Lean 4): non-interference in the event model of per-connection capture state — for EVERY interleaving of any number "
         "of connections (handshakes, frames, requests, reuse, disconnects) the data a request is fingerprinted from equals what its "
         "own connection's events alone produce (attribution); the premise 'no other channel between connections' is a REGENERATED "
         "fact: the list of package-level variables written after init in the fingerprinting packages (no_shared_channel). "
         "Validated with 2..64 concurrent clients (crypto/tls + ten utls presets, h1 keep-alive and multiplexed h2) against one real "
         "stack built with -race, each backend request compared with its own connection's specification values"),
   note=("PARTIAL: goroutine scheduling is sampled, not enumerated; the theorem covers the event model. Trusted: Lean kernel + standard "
         "axioms; translator (package-level writes, conservative w.r.t. shadowing); harness; race detector as schedule finder"),
   technique="Lean 4 non-interference theorem + regenerated shared-state facts + concurrent end-to-end differential under -race",
   design='7/C06'),
 'C07': dict(
   text=("Proof (Lean 4): under the locked access protocol, for every history, every schedule interleaving reads with the arrival of "
         "later frames and every limit, each value a handler observes is the fingerprint of the history at ONE instant not earlier "
         "than its own HEADERS (locked_no_torn); under the unlocked protocol a torn mixture exists (unlocked_torn_witness, kernel-"
         "evaluated); that the code follows the locked protocol is a REGENERATED fact (every capture write inside HTTP2Frames.Update, "
         "Marshal takes the mutex). Validated server-level and end-to-end under -race with handlers marshalling while frames arrive"),
   note=("PARTIAL: Go's memory model is represented only by 'regions under the mutex are atomic'; schedules are sampled by the race "
         "detector. Found and fixed D4"),
   technique="Lean 4 theorem over all schedules (locked protocol) + torn witness + regenerated lock-region facts + -race differential",
   design='7/C07'),
 'C08': dict(
   text=("Proof (Lean 4) in three layers. (1) The request-body path of the forked HTTP/2 server: models of dataBuffer (chunk "
         "allocation by size class, read/write cursors) and pipe (close / break / buffer hand-off) REFINE a FIFO byte queue under "
         "a proved representation invariant: Write appends exactly p, Read returns the oldest min(n, size) bytes (dbuf_write_appends, "
         "dbuf_read_prefix), for EVERY sequence of writes and reads what was read ++ what is buffered = initial ++ written "
         "(dbuf_fifo), and for every interleaving of DATA arrivals, body reads and the close the reader gets exactly the accepted "
         "bytes and only then the close error (pipe_fifo). (2) The request rewrite model (handler.go rewriteFunc + ReverseProxy "
         "prelude): every end-to-end header keeps all its values in order (end_to_end_headers_unaltered), method, path, query "
         "unaltered and the Host rule (request_line_unaltered). (3) End to end through the real stack over both protocols with "
         "bodies up to 5 MiB in arbitrary pieces, trailers and concurrent requests: ORACLE = the pass-through specification. "
         "(4) The response-body path inside the HTTP/2 server as one statement (C08_Body.lean): however a body is cut into DATA "
         "frames within the frame-size limit, the octets the framer writes, read back frame by frame, give exactly the body, with "
         "END_STREAM on the last frame only and the rest of the connection untouched (body_over_frames, body_any_cuts); the status "
         "gates of that path, regenerated from the source and compared on every code 0..1100: every three-digit status is accepted, "
         "a body is refused only for 1xx / 204 / 304 (gen_ok_status, every_three_digit_status_accepted, body_refused_iff). "
         "dataBuffer/pipe models are tied to the code by an exact differential incl. the chunk structure"),
   note=("PARTIAL: net/http, httputil.ReverseProxy and the transports are standard-library code (contracts modelled and exercised); "
         "the response path inside the HTTP/2 server: cutting (C20 Consume theorems) and framing + read-back (body_over_frames) are "
         "theorems, responseWriter's header / Content-Length / trailer logic is decided by the end-to-end oracle. Found and fixed D18 (query re-encoded). Trusted: Lean kernel + standard axioms; harness"),
   technique="Lean 4 refinement proof (FIFO) + header-rewrite theorems + end-to-end differential with identity oracle",
   design='7/C08'),
 'C09': dict(
   text=("Proof (Lean 4): X-Forwarded-For = client's list + peer IP, X-Forwarded-Host = client's Host, X-Forwarded-Proto = https iff "
         "the inbound request is marked TLS, client Forwarded never survives (xff_spec, xfh, xfp, no_client_forwarded) for every "
         "request and configuration; handler-level differential. The end-to-end fact that both protocols deliver a TLS-marked "
         "request is checked by the e2e stream"),
   note=("Trusted: Lean kernel + standard axioms; translator; harness. SetXForwarded / ReverseProxy prelude / net.SplitHostPort are "
         "assumed contracts (mirrored and compared)"),
   technique="Lean 4 theorems over the rewrite model + handler-level differential with spec oracle",
   design='7/C09'),
 'C12': dict(
   text=("Proof (Lean 4) in Go's own integer widths: outflow.add is an exact int32 overflow test (outflow_add_correct), take never "
         "overdraws stream or connection window (outflow_take_safe), inflow.take accepts iff within the advertised window "
         "(inflow_take_enforces), inflow.add returns or batches credit with the two panics characterised (inflow_add_returns, "
         "inflow_add_panics_iff), and for UNBOUNDED histories of take/add the un-returned credit stays < 4096 with "
         "received = returned + unsent (no_leak, by invariant). Client transport: a model of the request-body writer "
         "(writeRequestBody / awaitFlowControl / window and SETTINGS processing) with the theorem that every run of the writer, "
         "from any state incl. negative windows, releases no more DATA than the stream AND connection window allow, charges both "
         "exactly, conserves the queued bytes, keeps every frame within the peer's max frame size (tx_window_safe) and stops with "
         "bytes in hand only when a window is closed (tx_blocked_only_by_window). Server send side: C20 (Consume). Server receive "
         "side: a model of processData / noteBodyRead / closeStream / sendWindowUpdate (Model/H2Rx) with the theorem that for "
         "EVERY sequence of client frames and handler actions (reads, returns, Body.Close() followed by more DATA) on any number "
         "of streams the connection-level credit handed back "
         "or batched plus the bytes still buffered for open streams is at least the initial window and the batched part stays "
         "< 4096 (rx_no_credit_lost, by a ledger invariant through every branch), tied to the real serverConn by an exact "
         "differential of every WINDOW_UPDATE, RST_STREAM and GOAWAY; peer-side ledgers evaluated on the implementation's own "
         "frames turn a disagreement into a concrete failing input. Constants regenerated. Enforcement at both levels (C12_Enforce.lean): a DATA frame on an open stream whose flow-controlled length exceeds the stream's or the "
         "connection's receive window draws RST_STREAM(FLOW_CONTROL_ERROR) before anything else, one within both is never reset "
         "(takeInflows_refuses_iff, rx_window_exceeded_is_flow_control, rx_within_windows_accepted)"),
   note=("PARTIAL: the receive-side theorem is the connection-level ledger (stream-level windows are covered by the differential); "
         "the transport model covers one upload of unknown length per connection; the transport's RECEIVE side (response bodies) "
         "has no Lean model: its connection-credit ledger is evaluated on the real transport's own WINDOW_UPDATE frames (h2trx). D14 (double connection-level refund after "
         "RST_STREAM + late read) is reproduced by the model as the code has it — the non-vacuity example of rx_no_credit_lost "
         "ends with 5000 bytes of credit too many — and is why the theorem is one-sided, like the property. "
         "Trusted: Lean kernel + standard axioms; translator; harness (package-internal access through overlay, upstream's "
         "deterministic server and client-connection testers)"),
   technique="Lean 4 arithmetic + invariant proofs (int32 semantics, transport writer) + exact differentials on flow.go, schedulers, the real serverConn and the real client transport",
   design='7/C12'),
 'C13': dict(
   text=("Proof (Lean 4) over a state-machine model of the server's reaction to each client frame (processFrameFromReader, "
         "processFrame, processSettings/Headers/TrailerHeaders/Data/ResetStream/Priority/WindowUpdate/GoAway, resetStream, goAway, "
         "state()): a handler starts ONLY for a well-formed header block on a new, odd, strictly larger stream id below the "
         "advertised limit (handler_only_for_new_odd_increasing); a legal frame, and a legal frame sequence of any length, draws "
         "no error (legal_no_error_partial, legal_run_no_error_partial, with a non-vacuity session); the RFC's error for idle-stream "
         "frames, bad stream ids, over-limit requests, DATA on closed streams, PUSH_PROMISE, window overflow, first-frame-not-SETTINGS, "
         "and only RFC codes overall (idle_stream_is_connection_error … own_error_codes); every GOAWAY covers every handler started "
         "before it over whole runs (goaway_covers, via step_mono / handler_sets_max); after an error GOAWAY nothing is served "
         "(dead_forever). Model tied to the real serverConn by an exact differential of handler starts / RST_STREAM / GOAWAY after "
         "EVERY frame of generated sequences over the whole alphabet (upstream's deterministic server tester)"),
   note=("PARTIAL: header-field validation is abstracted to verdict classes (exercised per class by the differential; the framer's part "
         "is C19); legality of SETTINGS_INITIAL_WINDOW_SIZE changes is only stated while no stream is open; handler-side aborts "
         "racing with client frames are outside the model. Trusted: Lean kernel + standard axioms; harness"),
   technique="Lean 4 theorems over an executable state-machine model + exact per-frame differential against the real server",
   design='7/C13'),
 'C14': dict(
   text=("Proof (Lean 4) over a model of the two watched paths and CertWatcher's load-validate-then-swap: for EVERY history of update "
         "steps (incl. garbage, empty, partial, mismatched) the served pair is the initial one or one whose certificate and key were on "
         "disk together at an earlier moment (served_is_validated_pair), a failed load keeps the last good pair (keeps_last_good), and "
         "once the valid pair is on disk one notification suffices to serve it (converges, converges_after_last_step). Validated on the "
         "real file system with real fsnotify and real handshakes for the three update styles"),
   note=("PARTIAL: which changes produce an event is the fsnotify/inotify contract (assumed, validated by the stream); event latency is "
         "real time. Known finding D17 (symlink swap without deleting the old directory never reloads; swap_keep_witness) is recorded in "
         "KNOWN_FINDINGS.json, matched by the class predicate symlink-swap-without-delete"),
   technique="Lean 4 invariant + convergence theorems + file-operation differential against the real watcher",
   design='7/C14'),
 'C15': dict(
   text=("Proof (Lean 4): ServeHTTP answers locally (200, OK) iff probe support is on and the first User-Agent value begins with "
         "'kube-probe/', otherwise forwards — never both, never neither (route_exclusive, disabled_forwards); probe test, local "
         "answer and flag wiring regenerated from the source; handler-level differential over User-Agent classes"),
   note="Trusted: Lean kernel + standard axioms; translator; harness; http.Request.UserAgent() = first header value",
   technique="Lean 4 decision-logic theorem + regenerated facts + differential",
   design='7/C15'),
 'C10': dict(
   text=("Proof (Lean 4) of the panic-confinement clause: under Go's defer/recover rule, every per-connection goroutine that can run "
         "user callbacks (serveConn incl. the HTTP/2 serve loop; runHandler) has a deferred function calling recover directly — "
         "over the defer lists REGENERATED from the source (panic_confined, close_after_panic). Parser totality is proved in "
         "C04/C18/C19. The rest of the quantifier (arbitrary bytes, aborts at byte offsets, I/O faults, injected panics) is explored "
         "against the real stack, each scenario in a child process with a control client afterwards"),
   note=("PARTIAL: absence of panics in the whole Go code is not proved. Trusted: Lean kernel + standard axioms; translator "
         "(classification of deferred statements); harness; net/http's own recover on the HTTP/1.1 path. Found and fixed D3"),
   technique="Lean 4 theorem over regenerated defer facts (Go recover rule) + child-process fault/panic/abort exploration",
   design='7/C10'),
 'C11': dict(
   text=("Proof (Lean 4) over a transition system of one connection's life in serveConn: once the client is gone (or a timer fires) the "
         "enabled events lead serveConn to return, where the REGENERATED defer list closes the connection (eventually_returns, "
         "closes_on_return, handshake_timeout_cuts); the timeout wiring (idle timeout reaches both protocol servers, handshake "
         "timeout reaches the proxy) and the WithTimeout shape are regenerated facts (idle_wired, handshake_timeout_enforced). "
         "The real stack is exercised with short timeouts: idle cut on h1 and h2, stalled handshakes, aborts at byte offsets, "
         "goroutine-profile and Close() accounting"),
   note=("PARTIAL: real timers, the OS and goroutine scheduling are outside the model; net/http and crypto/tls behaviour are assumed "
         "contracts; D15 (hand-off racing with shutdown) is documented, its witness theorem kept. Found and fixed D5"),
   technique="Lean 4 transition-system theorem + regenerated wiring facts + timed end-to-end scenarios",
   design='7/C11'),
 'C16': dict(
   text=("Proof (Lean 4): over the exit paths of serveConn REGENERATED from the source (each with its metric calls), every outcome's "
         "path increments requests_total exactly once with the demanded labels (once_per_path), hence for any multiset of "
         "connections completing in any order the counter vector equals the multiset of outcomes (count_eq, total); validated "
         "against a real registry with batches of concurrent connections of every outcome"),
   note=("Trusted: Lean kernel + standard axioms; translator (exit-path enumeration for the early-return shape; other shapes are "
         "reported, never defaulted); harness. Partial: goroutine scheduling is sampled, the theorem covers the event model; "
         "Prometheus counters are modelled as commutative increments"),
   technique="Lean 4 theorem over regenerated control-flow facts + end-to-end differential against the metric registry",
   design='7/C16'),
 'C17': dict(
   text=("Proof (Lean 4): over a transition system of the cancel watcher (program order REGENERATED from Serve), the accept loop (error "
         "mapping regenerated) and the HTTP/1.1 server, for EVERY interleaving of cancel (early, repeated), watcher steps, exchange "
         "completions and unrelated connection events: when the accept loop sees the closed listener the shutdown flag is set "
         "(Serve returns ErrServerClosed) and no HTTP/1.1 exchange is in flight (serve_returns_ErrServerClosed by invariant), and "
         "after drain four watcher steps close the listener (returns_after_drain); a connection whose handshake would begin on a "
         "cancelled context is refused whatever the scheduler does (attempt_after_cancel_refused over the regenerated guard "
         "handshake_guard; unguarded_served_witness = finding D20, repaired); validated by cancelling a real workload and by "
         "stopping the real binary with SIGTERM / SIGINT"),
   note=("PARTIAL: net/http.Server.Shutdown and crypto/tls's asynchronous interruption of a handshake are assumed contracts; real "
         "scheduling and the OS are sampled. Accept errors other than the closed listener are outside the model (D16). Found and "
         "fixed D20 (fix: commit 80c7406)"),
   technique="Lean 4 invariant proof over all interleavings + regenerated program-order facts + end-to-end cancellation scenarios",
   design='7/C17'),
 'C18': dict(
   text=("Proof (Lean 4) over a model of the whole HPACK codec (varints, strings, Huffman over the REGENERATED code table, static + "
         "dynamic table, incremental decoder with saveBuf/firstField/maxStrLen, encoder): varint round trip for every prefix size "
         "(varint_roundtrip), the dynamic table never exceeds the size permitted at that moment after add / limit change / wire update "
         "(add_bounded, setMaxSize_bounded, size_update_limited), the regenerated Huffman table is a prefix code whose tree decodes "
         "every symbol and rejects EOS (huffman_tree_correct, eos_rejected; kernel evaluation over all 256 codes), Huffman round trip "
         "for EVERY byte string under every admitting length limit (huffman_roundtrip: bits/bytes with EOS-prefix padding, code "
         "words through the tree, by induction) and string-literal round trip (string_roundtrip: readString consumes exactly what "
         "appendHpackString wrote, Huffman or raw, and decodeString returns the string), FIELD round trip (field_roundtrip: for every "
         "field and every outcome of the encoder's table search the decoder emits exactly that field with its sensitivity and the "
         "two dynamic tables are identical again; searchTable_spec ties Encoder.searchTable to Decoder.at) and HEADER-BLOCK round "
         "trip (block_roundtrip: Decoder.Write on the encoder's output for any field list emits the list, no error, nothing held "
         "back, tables identical) also ACROSS ANY SCHEDULE of SetMaxDynamicTableSize calls before the block "
         "(block_roundtrip_after_resize: the pending-change invariant Pend, the size-update prologue, eviction composes as "
         "fit_fit), FRAGMENT INDEPENDENCE (fragment_independence: for every decoder state, byte string and way of cutting it into "
         "any number of fragments, successive Writes give exactly the fields, error and final state of one Write of the whole; "
         "write_split; prefix stability parseRepr_append, consumption bounds parseRepr_consumes show the pending-buffer length "
         "check can never fire spuriously), eviction exactness (add_exact, exact_fit_kept); decoder and encoder "
         "are total functions. Model tied to the code by exact differentials on encoder sequences and on the decoder over encoder "
         "output / mutations / random bytes / fragmentations; ORACLES: round trip with identical tables, fragment independence"),
   note=("The round-trip half (integers, Huffman, strings, fields, header blocks, table-size schedules, table synchrony; "
         "schedules that also move the LIMIT: block_roundtrip_after_size_and_limit in C18_Limit.lean, a theorem about the encoder WITH the D21 repair — false before it), fragment independence and the table bound are theorems about the "
         "model; 'what RFC 7541 specifies' for arbitrary bytes is the model itself (a transliteration) plus the rejection theorems "
         "(size_update_limited, eos_rejected), tied to the code by the differential. "
         "Trusted: Lean kernel + standard axioms (decide +kernel uses kernel evaluation, no extra axioms); translator; harness. The "
         "server links x/net v0.19.0's copy of hpack, not this one. Found and fixed D6, D12 and D21 (limit shrink not signalled)"),
   technique="Lean 4 theorems over a full executable model + regenerated tables + differential with round-trip / fragmentation oracles",
   design='7/C18'),
 'C19': dict(
   text=("Proof (Lean 4) over a model of the whole frame codec: no frame above the read limit is returned (read_bounded); every "
         "rejection by a frame parser is a connection or stream error with PROTOCOL / FLOW_CONTROL / FRAME_SIZE code, never a bare "
         "I/O error (parse_error_is_h2_error), with the RFC's code for fixed-length, short-frame, stream-zero and zero-increment "
         "defects and for illegal HEADERS/CONTINUATION interleavings (fixed_length_frames, short_frames, stream_zero_rules, "
         "window_update_nonzero, continuation_discipline); the 9-byte header round-trips for every type/flags/31-bit stream id and "
         "payload below 2^24 (header_roundtrip) with complete write->read round trips proved for DATA without and WITH padding "
         "(data_roundtrip, data_padded_roundtrip), HEADERS without padding/priority incl. the CONTINUATION expectation "
         "(headers_roundtrip), HEADERS with a priority block (headers_priority_roundtrip) and with padding "
         "(headers_padded_roundtrip) and with both (headers_padded_priority_roundtrip), CONTINUATION for a reader that expects "
         "it (continuation_roundtrip), PUSH_PROMISE without and with padding (push_promise_roundtrip, "
         "push_promise_padded_roundtrip), PRIORITY, RST_STREAM, SETTINGS (any list, order kept), PING, GOAWAY and WINDOW_UPDATE, each for "
         "every parameter value the writer accepts, and extension frames of EVERY unknown type octet (raw_unknown_roundtrip); the reader is a total function. "
         "Across frames: any cutting of a header block into HEADERS + CONTINUATION frames reads back as exactly those fragments, END_HEADERS "
         "last, no block left open (header_block_over_frames), and the HPACK decoder fed fragment by fragment yields what one write of the "
         "whole block yields (header_block_fields, via C18 fragment_independence); while a block is open the reader hands out nothing but "
         "a CONTINUATION of it, extension frames included (in_header_block_only_continuation, raw_unknown_in_header_block). Facts "
         "REGENERATED from frame.go on every run — parser table, frame types, flag bits, typeFrameParser's fallback, the tests of "
         "checkFrameOrder in order, size constants — are pinned by gen_ok_* and tied to the model (model_dispatch_matches_table). Exact differential on all Write* methods and on the reader over written / raw / mutated / "
         "truncated bytes under several read limits; ORACLES: read-back of everything the writer accepts, CONTINUATION reassembly"),
   note=("PARTIAL: ReadMetaHeaders' field validation, header-list size limit and its deliberate dependence on fragmentation once a "
         "field was invalid or the list too large (the decoder's emit switch is not in the model) are decided by the read-back oracles; "
         "every single frame layout, the fragment sequence and the decoding of a valid block are theorems. C19_Block imports C18's "
         "fragment theorem, so an edit to hpack can break C19's build too. Trusted: Lean kernel + standard axioms; harness. Found and fixed D13"),
   technique="Lean 4 theorems over a full executable codec model and regenerated frame facts + differential with read-back oracle",
   design='7/C19'),
 'C20': dict(
   text=("Proof (Lean 4). Round-robin scheduler model (writeQueue, Consume, ring) and the random scheduler as an arbitrary choice "
         "among ready streams: control frames first (control_first_*), every released DATA piece within stream window, connection "
         "window and max frame size with the connection window charged exactly (respects_windows_rr, consume_spec), split pieces "
         "add up (pieces_concatenate), Pop reports nothing only when nothing is sendable (pop_none_iff_rr), and for EVERY sequence "
         "of open/close/push/pop/window operations frames and DATA bytes pushed = handed out + queued + discarded by close "
         "(conservation_rr, by invariant). Priority scheduler: a pointer-level model (heap, map, parent pointers, sibling order, "
         "retention lists, throttling, re-sorting) with the theorem that for EVERY operation sequence, configuration and "
         "comparator the dependency structure stays a tree rooted at stream 0: every known stream has a finite parent chain "
         "ending at the root and no stream is its own transitive dependency (tree_rooted, no_cycle; representation invariant "
         "TreeInv preserved by OpenStream, CloseStream, AdjustStream incl. self-, circular and exclusive dependencies, "
         "evictions, Pop's re-sorting; depth bound by pigeonhole). All three models are tied to the real schedulers by exact "
         "differentials; for the priority scheduler the whole final structure incl. sibling order is compared. The scheduler-"
         "independent TRACE specification that judges the real schedulers' answers (oracle `schedtrace`) is proved to accept every "
         "run of the round-robin model and to track its state (trace_accepts_rr, trace_tracks_rr in C20_Trace.lean): the oracle is "
         "no stricter than the proved scheduler. Random scheduler (C20_Random.lean): for every operation sequence and EVERY choice "
         "Go's map iteration can make at each Pop — conservation (conservation_random), windows (respects_windows_random), "
         "per-stream FIFO (fifo_random: Pop takes the front; push_fifo_random: Push appends at the end), a ready stream reached by the iteration is popped and 'nothing' means the reached stream "
         "was not ready (ready_choice_pops, pop_none_random), no panic (random_never_panics). Priority scheduler's Pop "
         "(C20_PrioWin.lean), for every tree, comparator and throttle state: what is handed out is the oldest frame of some "
         "node's queue, whole or cut, within the stream window, connection window and max frame size as they stood at the call "
         "(prio_pop_fifo_within_windows, via walk_spec over walkReadyInOrder), a Pop reporting nothing touched no queue, window "
         "or throttle limit (prio_pop_none_keeps), control frames first (control_first_prio); Pop changes exactly ONE queue — the "
         "head of one node's queue leaves or is shortened by the piece, every other queue is untouched (prio_pop_exact) — and Push "
         "appends to exactly one queue in every reachable state (prio_push_exact_reachable). Facts REGENERATED from writesched.go / "
         "writesched_priority.go on every run — Consume's tests in order, the callback of the priority Pop statement by statement, default "
         "weight and configuration, initial throttle limits — are pinned (gen_ok_consume, gen_ok_prio_pop, gen_ok_prio_defaults) and tied "
         "to the model (model_defaults, model_budget, model_throttle)"),
   note=("PARTIAL: conservation over whole operation sequences is proved for round robin and random; for the priority scheduler "
         "per-Pop FIFO / windows / control-first and the tree clause are theorems, conservation over sequences and 'nothing only when "
         "nothing is sendable' are decided by the trace oracle on the differential. sort.Sort is modelled as insertion sort (<= 12 siblings). "
         "Found and fixed D7. Trusted: Lean kernel + standard axioms; harness"),
   technique="Lean 4 invariant proofs over operation sequences (ring / random conservation, priority-tree invariant, per-Pop exactness) over models tied by regenerated facts + exact differentials through package-internal access + trace oracle",
   design='7/C20'),
}
ALL = [f'C{i:02d}' for i in range(1, 21)]

def main():
    checks = []
    for p in ALL:
        if p not in CLAIMED:
            continue
        c = CLAIMED[p]
        checks.append({
            'property_id': p,
            'quick_cmd': f'python3 check/check.py {p} --tier quick',
            'thorough_cmd': f'python3 check/check.py {p} --tier thorough',
            'evidence_file': f'/verif/evidence/{p}.json',
            'replay_cmd_template': f'python3 check/check.py {p} --replay {{path}}',
            'engine': 'lean4-fpverif',
            'level_claimed': {'category': 'proof', 'text': c['text'], 'design_ref': 'DESIGN.md section ' + c['design']},
            'level_note': c['note'],
            'technique': c['technique'],
        })
    m = {
        'version': 1,
        'setup_cmd': 'sh /verif/setup.sh',
        'hooks': {
            'guard': 'verif',
            'enable': "go build -tags verif -modfile=/verif/build/gomod/go.mod -overlay=/verif/build/overlay.json (overlay files live under /verif/harness/overlay; nothing is added to /repo)",
            'baseline_off_cmd': "cd /repo && GOFLAGS=-mod=mod go test -vet=off -count=1 ./...",
            'source_commits': [],
            'add_only': True,
        },
        'engines': [{'name': 'lean4-fpverif', 'path': '/verif/lean', 'serves_properties': sorted(CLAIMED),
                     'kind_free_text': 'Lean 4 models + theorems (lake project), go/ast translator (Gen/*.lean), Go correspondence harness + Lean driver'}],
        'checks': checks,
        'notes': 'See DESIGN.md. KNOWN_FINDINGS.json lists recorded defects; replays/ is written on violation.',
        'not_applicable': [{'property_id': p, 'reason': 'check not built yet in this revision (planned, see DESIGN.md section 7)'}
                           for p in ALL if p not in CLAIMED],
    }
    json.dump(m, open('/verif/MANIFEST.json', 'w'), indent=1)
    print('claimed', len(checks), 'not_applicable', len(m['not_applicable']))

if __name__ == '__main__':
    main()
