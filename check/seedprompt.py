#!/usr/bin/env python3
"""Write the prompts for a round of seeded-change sub-agents (validation only, not a registered check).

  seedprompt.py <round-dir> <first-k> [props...]     e.g. seedprompt.py /tmp/seed3 6

Each prompt contains ONLY the property's text (from properties.jsonl), the summaries of the changes earlier rounds already
produced for it (so that the new ones differ) and the working rules; nothing else from /verif.
"""
import glob, json, os, sys

ROOT = os.path.dirname(os.path.dirname(os.path.abspath(__file__)))
NMUT = int(os.environ.get('SEED_N', '2'))     # changes asked of each agent


def main():
    rd, k0 = sys.argv[1], int(sys.argv[2])
    want = sys.argv[3:]
    props = [json.loads(l) for l in open(f'{ROOT}/properties.jsonl') if l.strip()]
    os.makedirs(f'{rd}/prompts', exist_ok=True)
    for p in props:
        pid = p['id']
        if want and pid not in want:
            continue
        prev = []
        for d in sorted(glob.glob(f'{ROOT}/seeded/{pid}-m*/meta.json')):
            m = json.load(open(d))
            prev.append(f"  - {', '.join(m.get('files', []))}: {m.get('summary', '')} (trigger: {m.get('trigger', '')})")
        a = p['anchors']
        state = '\n'.join(f"  - {s['name']}: {s['meaning']} ({s['where']})" for s in a.get('state', [])) or '  (none listed)'
        mech = '\n'.join(f"  - {s['name']} ({s['where']})" for s in a.get('mechanism', []))
        wt = f'{rd}/{pid}/wt'
        env = 'GOFLAGS=-mod=mod GOPROXY=off GOSUMDB=off GOTOOLCHAIN=local'
        txt = f"""You are helping to evaluate a verification suite by writing realistic *property-breaking code changes* (seeded defects) for the Go project wi1dcard/fingerproxy (an HTTPS reverse proxy that computes JA3/JA4/HTTP2 fingerprints, built on a fork of golang.org/x/net/http2).

You have your OWN scratch git worktree of the project at {wt} . Work ONLY inside {rd}/{pid}/ . Never read, list or modify anything under /verif or /repo (the worktree is a full checkout; you do not need them). No network is available. NEVER use `git stash` (the stash is shared between worktrees); to set a change aside use `git diff > file`, `git checkout -- .`, `git apply file`.

THE PROPERTY (id {pid}): {p['title']}

Statement: {p['statement']}

Quantified over: {p['quantifier']['text']}

Why the existing tests cannot settle it: {p['why_tests_cant']}

Files it is anchored in: {', '.join(a['files'])}
State:
{state}
Mechanism:
{mech}

(References to "DESIGN.md" or "defect Dn" in the text above refer to documents you do not have; ignore them. The tree already contains some fixes relative to upstream, so the code may differ slightly from the line numbers above.)

Earlier rounds already produced these changes for this property — yours must be DIFFERENT from all of them (different code location, or a different clause of the property, or a clearly different triggering condition):
{chr(10).join(prev)}

YOUR TASK: produce {NMUT} NEW code change{'s' if NMUT>1 else ''} (mutant{'s' if NMUT>1 else ''}) to the project, each of which
  1. still compiles:  cd {wt} && {env} go build ./...
  2. still passes the project's existing test suite, unedited:  cd {wt} && {env} go test -vet=off -count=1 -timeout 25m ./...   (three tests in pkg/reverseproxy — TestInjectHeader, TestPreserveHost, TestAppendForwardHeader — need the network and ALWAYS fail in this sandbox, also on the unchanged tree; ignore exactly those three. Everything else must pass. Running only the packages you touched plus their dependants is fine while iterating, but run the affected packages fully at the end; the pkg/http2 suite takes a few minutes);
  3. BREAKS the property above — the statement as written, not some other behaviour — in a way that needs something SPECIFIC to manifest: a particular input shape, boundary value, operation order, schedule, configuration or history. Prefer clauses of the statement and parts of the quantifier that the earlier rounds did NOT touch, and code locations they did not touch. Changes that break every run trivially are not interesting; neither are changes that the existing tests catch;
  4. is REALISTIC: the kind of mistake or "harmless-looking" refactor/optimisation a maintainer could plausibly commit. No sabotage comments, no dead weird code. Keep each patch small (typically 1-15 changed lines), touching only non-test source files of the project;
  5. comes with a DEMONSTRATION: a small self-contained Go test file or program (NOT part of the patch) plus the exact command to run it, which shows the property violated on the patched tree and holding on the unpatched tree. Run it both ways and record the observed outputs.

DELIVERABLES, for k = {', '.join(str(k0+i) for i in range(NMUT))}, in {rd}/{pid}/out/m<k>/ :
  - patch.diff  : output of `git -C {wt} diff` for that mutant only (must apply with `git apply` to a clean checkout of the same commit);
  - demo/       : the demonstration file(s) and a demo/README.md with the exact command(s) (as indented or fenced shell lines starting with mkdir / cp / cd / GOFLAGS= / go test / go run, using absolute paths), where to place the files, and the observed output with and without the patch;
  - meta.json   : {{"property": "{pid}", "mutant": "m<k>", "files": [...], "summary": "<one sentence: what was changed>", "breaks_clause": "<which clause of the property>", "trigger": "<what specific input/schedule/config is needed to see it>", "tests_pass": true, "test_command": "<what you ran>", "notes": "..."}}
Between mutants reset the worktree: `git -C {wt} checkout -- . && git -C {wt} clean -fdq`. Leave the worktree clean (reset) when you finish. Demo test files placed temporarily inside the worktree must be removed again before producing patch.diff.

Use Go from PATH (go1.23.x); always export {env}. Keep scratch files inside {rd}/{pid}/ only. If a mutant candidate turns out to be caught by the existing tests, discard it and find another. In your final answer, list for each mutant: the summary, the trigger, and confirmation that build + tests passed and that the demo shows the violation.
"""
        open(f'{rd}/prompts/{pid}.txt', 'w').write(txt)
        print('wrote', f'{rd}/prompts/{pid}.txt', len(prev), 'previous')


main()
