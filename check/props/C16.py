from check import run_diff_property

CFG = dict(
    streams=[('metrics', 40, 400), ('shutdown', 12, 200)],
    oracle_ops={'metrics', 'shutdown'},
    ops_filter={'metrics', 'shutdown'},   # (not shutdown2 / binsig)
    project={'shutdown': lambda l: ' '.join(t for t in l.split(' ') if t.startswith('counted='))},   # (the rest is C17's)
    rule=("batches of 1..24 concurrent connections against the real stack (root-package wiring, real registry), each of kind "
          "h2 / http/1.1 / no ALPN / plain HTTP on the TLS port / random garbage / ClientHello cut at a random offset / silent "
          "stall until the handshake timeout / abort right after the handshake (h1, h2) / TLS 1.0-1.1 client; Gather() after "
          "every accepted connection was closed, compared with the multiset the property demands; a third of the batches also sample "
          "the counter while 1-3 served connections are still open (counted when they END); plus the shutdown scenarios of C17 "
          "(connections attempted while the server drains are refused AND counted). non-trivial = batch with >= 2 kinds"),
    assumptions=[
        "Prometheus counters are commutative increments (modelled as a multiset of labels)",
        "a connection 'ends' when serveConn returns; the harness waits until the proxy closed every accepted connection",
        "panics inside serveConn are C10's subject",
    ],
    nontrivial=lambda o, i: ',' in o or o.startswith('shutdown'),
)


def run(tier, seed, replay=None):
    return run_diff_property('C16', CFG, tier, seed, replay)
