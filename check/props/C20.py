from check import run_diff_property

CFG = dict(
    streams=[('sched', 1500, 30000, 'http2test')],
    oracle_ops=set(),
    twophase_ops={'sched'},
    http2_ops={'sched'},
    rule=("random operation sequences (open / close / push DATA of 0..40000 bytes with/without END_STREAM / push non-DATA / push "
          "control / push control naming a stream / stream and connection window updates incl. negative / max frame size / pop; "
          "5..130 operations, up to 12 open streams) against the real round-robin and random schedulers through package-internal "
          "access; every Pop result and the final connection window compared with the model; for the random scheduler the model "
          "follows the implementation's choice after checking it is admissible. non-trivial = sequence with >= 1 pop after a push"),
    assumptions=[
        "the scheduler interface is used as the server uses it (one goroutine; streams opened before DATA is pushed)",
        "Go map iteration order (random scheduler) is treated as an arbitrary choice among ready streams",
    ],
    nontrivial=lambda o, i: 'pd' in o and ';x' in o,
)


def run(tier, seed, replay=None):
    return run_diff_property('C20', CFG, tier, seed, replay)
