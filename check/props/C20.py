from check import run_diff_property


def tree_broken(o, i):
    """the implementation's own final structure is not a tree rooted at stream 0 (a concrete failing input)"""
    for tok in i.split(' '):
        if tok.startswith('tree='):
            par = {}
            for n in tok[5:].split(','):
                f = n.split('/')
                if len(f) >= 2:
                    par[f[0]] = f[1]
            for n in par:
                seen, x = set(), n
                while x != '0':
                    if x in seen or x not in par or par[x] == '-':
                        return True
                    seen.add(x)
                    x = par[x]
    return False

CFG = dict(
    issue_prefixes=['sched:'],
    streams=[('sched', 1500, 30000, 'http2test'), ('prio', 1500, 30000, 'http2test')],
    corpus_exec={'d7_idle_open_evicted.ops': 'http2test'},
    self_evident=tree_broken,
    oracle_ops={'schedtrace'},
    twophase_ops={'sched', 'schedtrace'},
    http2_ops={'sched', 'schedtrace'},
    rule=("random operation sequences (open / close / push DATA of 0..40000 bytes with/without END_STREAM / push non-DATA / push "
          "control / push control naming a stream / stream and connection window updates incl. negative / max frame size / pop; "
          "5..130 operations, up to 12 open streams) against the real round-robin and random schedulers through package-internal "
          "access; every Pop result and the final connection window compared with the model; for the random scheduler the model "
          "follows the implementation's choice after checking it is admissible. prio: the same operations plus AdjustStream (any "
          "dependency incl. self, descendants, unknown and idle ids; weights 0..255; exclusive flag) on at most 11 stream ids "
          "against the real priority scheduler in 50 configurations (closed / idle retention 0,1,2,4,10; throttling on/off), "
          "comparing every Pop and, at the end, the whole structure: map, parent of every node, sibling ORDER (after the "
          "float64 comparator and re-sorting), weights, states, byte counters, queue lengths, retention lists, throttle limit. "
          "non-trivial = sequence with >= 1 pop after a push"),
    assumptions=[
        "the scheduler interface is used as the server uses it (one goroutine; streams opened before DATA is pushed)",
        "Go map iteration order (random scheduler) is treated as an arbitrary choice among ready streams",
        "priority scheduler: sort.Sort is modelled as insertion sort, which is what Go's pdqsort does for <= 12 elements; the generator keeps every sibling list within that bound",
    ],
    nontrivial=lambda o, i: 'pd' in o and ';x' in o,
)


def run(tier, seed, replay=None):
    return run_diff_property('C20', CFG, tier, seed, replay)
