from check import run_diff_property

CFG = dict(
    streams=[('cap', 1500, 20000)],
    oracle_ops={'capspec'},
    self_evident=lambda o, i: 'up=MISMATCH' in i or i.startswith('panic'),
    rule=("scripted net.Conn delivering chosen chunks to the real HijackClientHelloConn; GetClientHello asked after every "
          "read; exhaustive: all 2^(n-1) segmentations of every stream of total length <= 10 (quick) / 14 (thorough), all "
          "type bytes, boundary/all record versions, cut pairs around header and record boundary for lengths "
          "0,1,2,16384,18432,65530; random: structured streams, failing reads, zero-length reads, truncated delivery. "
          "non-trivial = at least 5 bytes delivered"),
    assumptions=[
        "reads that return data together with an error are outside the quantifier (TCP never does); failing reads return no data",
        "declared record length <= 65530 (every legal TLS record is <= 2^14+2048); the wrap beyond is documented (wrap_witness)",
        "bytes.Buffer append/truncate semantics",
    ],
    nontrivial=lambda o, i: 'ok:' in i or 'err:not' in i or 'err:bad' in i or ' ' in i,
)


def run(tier, seed, replay=None):
    return run_diff_property('C04', CFG, tier, seed, replay)
