from check import run_diff_property

CFG = dict(
    streams=[('pass', 120, 1500), ('dbuf', 1500, 30000, 'http2test')],
    oracle_ops={'pass', 'passtr', 'passwin'},
    http2_ops={'dbuf', 'h2status'},
    rule=("pass: generated requests (9 methods/paths incl. escapes, dot segments, ';' parameters; 7 query shapes incl. ';' and "
          "repeated keys; 5 Host values; 0-8 headers from 19 end-to-end names with repeated / empty / 8 KB / non-ASCII values plus "
          "hop-by-hop ones the client stack transmits verbatim (Connection-listed names, Keep-Alive, Proxy-Connection, "
          "Proxy-Authorization, TE); bodies 0 B .. 5 MiB cut into pieces by 7 patterns (one write, 1-byte pieces, random <= 4 KiB, "
          "16 KiB, random <= 128 KiB, frame-size boundaries, 1 MiB), with and without Content-Length, with request trailers) through "
          "the REAL proxy stack over HTTP/1.1 and HTTP/2, 1-7 requests per scenario sequentially or concurrently, PreserveHost on and "
          "off, to a backend answering with scripted status (28 codes, 200..999), header set (end-to-end and hop-by-hop), streamed body "
          "(same size/piece patterns, with and without Flush) and 1-3 trailers announced fully / only the first name / not at all; ORACLE = the pass-through specification computed with "
          "the rewrite model: method, URI, Host rule, every sent header name's values, the set of other header names, body length + "
          "MD5, and the response status, headers, body length + MD5 and trailers as received by the client. "
          "passwin: a raw HTTP/2 client receiving 5 KB .. 200 KB under an initial stream window of 0 / 1 / 16384 bytes that it reopens "
          "with WINDOW_UPDATE, with SETTINGS INITIAL_WINDOW_SIZE changes, or alternately, on a half-closed (GET) or open (POST) stream: "
          "status, completion, length and MD5 of what arrived. "
          "dbuf: 3-33 operations on dataBuffer / pipe (writes of boundary sizes around the five chunk classes, reads of any size, "
          "Len, CloseWithError, BreakWithError) with 11 `expected` hints, comparing every result and the final chunk structure. "
          "non-trivial = a pass scenario with a body or several requests, a dbuf sequence with >= 4 operations"),
    assumptions=[
        "net/http, httputil.ReverseProxy, the outbound http.Transport and the clients (net/http, x/net/http2 Transport) are standard-library code: their contracts are modelled (Driver/Pass.lean header) and exercised, not verified",
        "request trailers are not forwarded by httputil.ReverseProxy (Request.Clone copies the announced trailer keys before the body is read); the property does not list them for the request direction and the oracle pins the observed behaviour",
        "the Go HTTP/2 client transport cannot send padded DATA frames; padding arithmetic is covered by C12/C19",
    ],
    nontrivial=lambda o, i: o.startswith(('passtr', 'passwin')) or (o.startswith('pass ') and (';' in o.split('reqs=')[1] or '.0.' not in o)) or (o.startswith('dbuf') and o.count(';') >= 3),
)


def run(tier, seed, replay=None):
    return run_diff_property('C08', CFG, tier, seed, replay)
