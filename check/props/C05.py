from check import run_diff_property
import lib


def value_or_absent(o, i, m):
    """C05 allows, under each fingerprint header name, exactly the proxy's value OR no header at all (whether a
    fingerprint can be computed is C01-C03's business); what it forbids is anything else, notably a client value"""
    if not o.startswith('e2e'):
        return False
    it, mt = i.split(' '), m.split(' ')
    if len(it) != len(mt):
        return False
    for a, b in zip(it, mt):
        if a == b:
            continue
        if not (a.startswith('R') and b.startswith('R')):
            return False
        pa, pb = a.split(';'), b.split(';')
        if len(pa) != len(pb) or pa[0] != pb[0]:
            return False
        for x, y in zip(pa[1:], pb[1:]):
            if x != y and x.split('=', 1)[1] != '-':
                return False
    return True

CFG = dict(
    streams=[('rw', 2500, 40000), ('e2e', 150, 2500), ('e2emulti', 8, 150)],
    oracle_ops={'rwspec05', 'e2e', 'e2emulti'},
    twophase_ops={'e2e', 'e2emulti'},
    project={'e2e': lib.proj_e2e({'ja3', 'ja4', 'h2'}), 'e2emulti': lib.multi(f1=lib.proj_e2e({'ja3', 'ja4', 'h2'}))},
    ops_filter={'rw', 'rwspec05', 'e2e', 'e2emulti'},
    race_streams={'e2emulti'},
    accept=value_or_absent,
    rule=("HTTPHandler.ServeHTTP in-process with a recording transport: default three injectors plus 0-2 custom ones (incl. a "
          "repeated name and odd spellings), each scripted to value / empty value / error, crossed with client header lines "
          "under every injected name in random letter case, 0-2 repetitions, empty values, plus hop-by-hop, forwarding and "
          "User-Agent variants. non-trivial = the client supplied at least one line under an injected name"),
    assumptions=[
        "net/http servers canonicalise wire header names with textproto.CanonicalMIMEHeaderKey (modelled as canonKey; h1 and h2 server paths are exercised end-to-end by the e2e stream)",
        "httputil.ReverseProxy prelude (clone, hop-by-hop removal, forwarding-header stripping) is an assumed contract, mirrored in Fp.Proxy.prelude and compared by the `rw` operation",
        "an injector named User-Agent is outside the statement",
    ],
    nontrivial=lambda o, i: True,
)


def run(tier, seed, replay=None):
    return run_diff_property('C05', CFG, tier, seed, replay)
