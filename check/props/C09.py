from check import run_diff_property
import lib

CFG = dict(
    streams=[('rw', 2500, 40000), ('e2e', 150, 2500)],
    oracle_ops={'rwspec09', 'e2e'},
    twophase_ops={'e2e'},
    project={'e2e': lib.proj_e2e({'xff', 'xfp', 'xfh', 'fwdh'})},
    ops_filter={'rw', 'rwspec09', 'e2e'},
    rule=("HTTPHandler.ServeHTTP in-process: 0-2 client X-Forwarded-For lines (single, list, empty), client "
          "X-Forwarded-Proto/-Host/Forwarded in random letter case, remote addresses IPv4 / IPv6 / zone / malformed, "
          "Host variants, PreserveHost on/off, inbound TLS flag on/off. non-trivial = every case"),
    assumptions=[
        "ProxyRequest.SetXForwarded and the ReverseProxy prelude are assumed contracts (mirrored, compared by `rw`)",
        "at handler level In.TLS is an input; that the real stack delivers a non-nil TLS state on both protocols is checked by the e2e stream",
        "injector names are disjoint from the forwarding header names (InjDisjoint)",
    ],
)


def run(tier, seed, replay=None):
    return run_diff_property('C09', CFG, tier, seed, replay)
