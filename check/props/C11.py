from check import run_diff_property

CFG = dict(
    streams=[('life', 40, 600)],
    oracle_ops={'life'},
    rule=("real stack with short timeouts: a connection that served one request and goes idle must be cut by the proxy "
          "(h1 and h2; idle 150..500 ms); a client that sends 0..200 bytes of a ClientHello and stalls must be cut after the "
          "handshake timeout; client close / reset after n bytes written (n over the handshake and an HTTP exchange, h1 and h2); "
          "silent stall inside the request / preface; after each: every accepted connection closed by the proxy and no serving "
          "goroutine left (goroutine profile). non-trivial = every scenario"),
    assumptions=[
        "real timers and the OS: limits are 4x the configured timeout + 1.5 s",
        "net/http's idle handling and crypto/tls's HandshakeContext cancellation are assumed contracts",
        "a hand-off to the HTTP/1.1 server racing with shutdown (D15) is outside the scenarios (recorded in DESIGN.md)",
    ],
)


def run(tier, seed, replay=None):
    return run_diff_property('C11', CFG, tier, seed, replay)
