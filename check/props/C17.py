from check import run_diff_property

CFG = dict(
    streams=[('shutdown', 60, 800)],
    oracle_ops={'shutdown', 'shutdown2', 'binsig'},
    project={'shutdown': lambda l: ' '.join(t for t in l.split(' ') if not t.startswith('counted='))},   # (the count is C16's)
    rule=("real stack: 0-3 idle keep-alive HTTP/1.1 connections, 0-3 open HTTP/2 connections, 0-3 clients stalled mid-handshake, "
          "optionally one HTTP/1.1 request in flight at a blocked backend; context cancelled (once / twice / before Serve is called); "
          "observed: Serve's return value and latency, the listening socket, a connection attempted afterwards, the idle connections, "
          "whether the in-flight exchange had ended when Serve returned. Plus the BINARY: fingerproxy.Run() in a child process (flags, "
          "signal.NotifyContext, ListenAndServe) with an idle keep-alive connection and an exchange in flight, stopped with SIGTERM "
          "and with SIGINT: exit by itself with status 0, idle connection closed, exchange completed. non-trivial = every scenario"),
    assumptions=[
        "net/http.Server.Shutdown closes idle connections and returns when no connection is active (assumed contract)",
        "request contexts derive from the server context, so cancellation also ends in-flight exchanges (they finish with an error status)",
        "Accept errors other than the closed listener are outside the model (D16)",
    ],
)


def run(tier, seed, replay=None):
    return run_diff_property('C17', CFG, tier, seed, replay)
