from check import run_diff_property

CFG = dict(
    streams=[('h2sm', 1200, 20000, 'http2test')],
    oracle_ops={'h2smrif'},
    corpus_exec={'d19_trailers_after_early_response.ops': 'http2test', 'self_dep_priority_after_server_reset.ops': 'http2test'},
    http2_ops={'h2sm', 'h2smrif'},
    rule=("scripted client against the real serverConn (upstream's deterministic tester): sequences of 3..45 frames over the whole "
          "alphabet — SETTINGS (valid, invalid values, duplicates, ACK with and without outstanding settings), HEADERS for new "
          "requests (with/without END_STREAM, Content-Length, CONNECT, priority incl. self-dependency, handlers that block or "
          "return), malformed / ill-shaped header blocks, HEADERS on even / reused / lower / skipped ids, trailers (valid, without "
          "END_STREAM, duplicated, with pseudo-headers, on half-closed streams), DATA on open / half-closed / closed / idle "
          "streams and beyond the declared length, RST_STREAM / PRIORITY / WINDOW_UPDATE (overflow) on streams in every state, "
          "PING, client GOAWAY, PUSH_PROMISE, unknown frames, 25 malformed raw frames, frames above the read limit; concurrency "
          "limits 1, 3, 100. After EVERY client frame the handler starts, RST_STREAM and GOAWAY frames are compared with the "
          "model. non-trivial = sequence with >= 4 frames"),
    assumptions=[
        "header-field validity is abstracted to the verdict classes of the framer / request construction (exercised per class)",
        "the deterministic tester delivers one frame at a time (quiescence after each); handler-side aborts racing with client frames are not part of this stream",
    ],
    nontrivial=lambda o, i: o.count(',') >= 3,
)


def run(tier, seed, replay=None):
    return run_diff_property('C13', CFG, tier, seed, replay)
