from check import run_diff_property

CFG = dict(
    streams=[('flow', 3000, 60000, 'http2test'), ('sched', 1000, 20000, 'http2test')],
    oracle_ops=set(),
    twophase_ops={'sched'},
    http2_ops={'flow', 'sched'},
    rule=("(a) operation sequences on the real inflow / outflow (init, add, take, takeInflows, outflow add/take/available, stream "
          "and connection level) with boundary values 0, 1, 4095..4097, 65535, 2^31-2, 2^31-1, negative and overflowing "
          "updates; every return value, panic and the final counters compared with the model; (b) scheduler sequences "
          "(Consume with stream / connection windows incl. windows driven negative, max frame size): every released DATA "
          "piece and the connection window compared with the model. non-trivial = sequence with >= 3 operations"),
    assumptions=[
        "Go int32/uint32 conversions are modelled by wrap32/toU32 (two's complement)",
        "the server's use of these primitives (processData, noteBodyRead, closeStream, sendWindowUpdate) is validated by the server-level streams; finding D14 (double conn-level refund after a reset) is recorded in DESIGN.md",
    ],
    nontrivial=lambda o, i: o.count(';') >= 2,
)


def run(tier, seed, replay=None):
    return run_diff_property('C12', CFG, tier, seed, replay)
