from check import run_diff_property


def peer_ledger(o, i):
    """peer-side window ledgers evaluated on the IMPLEMENTATION's frames: a concrete failing input when they break"""
    try:
        kind = o.split(' ', 1)[0]
        if kind == 'h2tx':
            kv = dict(t.split('=', 1) for t in o.split(' ')[1:])
            conn, stream, init, maxf = 65535, 65535, 65535, 16384
            if kv.get('greet', '-') != '-':
                for e in kv['greet'].split(';'):
                    a, b = e.split('.')
                    if a == '4':
                        stream = init = int(b)
                    if a == '5':
                        maxf = int(b)
            toks, outs = kv['ev'].split(','), i.split('/')
            body = sent = 0
            ended = saw_end = False
            for t, out in zip(toks, outs):
                k, rest = t[:1], t[2:]
                if k == 'B' and not ended:
                    body += int(rest)
                elif k == 'E':
                    ended = True
                elif k == 'W':
                    a, b = rest.split('.')
                    if a == '0':
                        conn += int(b)
                    else:
                        stream += int(b)
                elif k == 'S':
                    a, b = rest.split('.')
                    if a == '4':
                        stream += int(b) - init
                        init = int(b)
                    if a == '5':
                        maxf = int(b)
                for f in filter(None, out.split('+')):
                    if f.startswith('d'):
                        n, es = f[1:].split(':')
                        n = int(n)
                        if n > maxf or (n > 0 and (n > conn or n > stream)):
                            return True          # DATA beyond the peer's window / max frame size
                        conn -= n
                        stream -= n
                        sent += n
                        saw_end = saw_end or es == '1'
                    elif f.startswith('R') or f.startswith('G'):
                        return False             # the upload was aborted (overflowing update): no liveness claim
                if body - sent > 0 and min(conn, stream) > 0 and maxf > 0:
                    return True                  # queued data, both windows open, and the writer sent nothing more
            # liveness: the schedule ends with everything opened, so all queued data and END_STREAM must be out
            return sent != body or (ended and not saw_end)
        if kind == 'h2rx':
            toks, outs = o.split('ev=')[1].split(','), i.split('/')
            charged = returned = 0
            for t, out in zip(toks, outs):
                fs = [f for f in out.split('+') if f]
                if t.startswith('D:'):
                    sid, ln, pad, es = t[2:].split('.')
                    L = int(ln) + (0 if pad == '-' else int(pad) + 1)
                    if not any(f.endswith(':3') and (f.startswith('R') or f.startswith('G')) for f in fs):
                        charged += L
                returned += sum(int(f.split(':')[1]) for f in fs if f.startswith('W0:'))
            return charged - returned >= 4096    # connection credit never returned although everything was read / closed
    except Exception:
        return False
    return False

CFG = dict(
    streams=[('flow', 3000, 60000, 'http2test'), ('sched', 1000, 20000, 'http2test'), ('h2rx', 1500, 30000, 'http2test'),
             ('h2tx', 1500, 30000, 'http2test'), ('h2stx', 400, 8000, 'http2test'), ('rxblocked', 2, 8),
             ('h2trx', 600, 12000, 'http2test')],
    oracle_ops={'schedtrace', 'h2stx', 'rxblocked', 'h2trx'},
    self_evident=peer_ledger,
    twophase_ops={'sched', 'schedtrace'},
    http2_ops={'flow', 'sched', 'schedtrace', 'h2rx', 'h2tx', 'h2stx', 'h2trx'},
    rule=("(a) operation sequences on the real inflow / outflow (init, add, take, takeInflows, outflow add/take/available, stream "
          "and connection level) with boundary values 0, 1, 4095..4097, 65535, 2^31-2, 2^31-1, negative and overflowing "
          "updates; every return value, panic and the final counters compared with the model; (b) scheduler sequences "
          "(Consume with stream / connection windows incl. windows driven negative, max frame size): every released DATA "
          "piece and the connection window compared with the model; (c) h2rx: the real serverConn (deterministic tester) fed "
          "4-200 events on up to four request streams — DATA of boundary sizes with and without padding (incl. padding-only "
          "frames), beyond the stream / connection windows, beyond the declared Content-Length, on half-closed and closed "
          "streams, handler reads of any size at any time, client resets, handler returns before the body ended — comparing "
          "every WINDOW_UPDATE (stream and connection, exact increments incl. the 4 KiB batching), RST_STREAM and GOAWAY after "
          "every event; (d) h2tx: the real client transport (upstream's deterministic client-connection tester) uploading a "
          "body under schedules of body production, WINDOW_UPDATE and SETTINGS_INITIAL_WINDOW_SIZE / MAX_FRAME_SIZE changes "
          "(windows driven negative, frame size lowered mid-upload), comparing every DATA frame; (e) h2trx: the real client "
          "transport RECEIVING up to six response bodies (DATA of boundary sizes, padded or not, END_STREAM at any point) while the "
          "application reads parts, reads everything or closes early or after the response has ended: once every body is closed "
          "the connection-level credit returned equals what the server sent up to the 4 KiB batch (ledger on the implementation's "
          "own WINDOW_UPDATE frames; this side has no Lean model). non-trivial = sequence with "
          ">= 3 operations"),
    assumptions=[
        "Go int32/uint32 conversions are modelled by wrap32/toU32 (two's complement)",
        "the server's use of these primitives (processData, noteBodyRead, closeStream, sendWindowUpdate) is validated by the server-level streams; finding D14 (double conn-level refund after a reset) is recorded in DESIGN.md",
    ],
    nontrivial=lambda o, i: o.count(';') >= 2 or o.count(',') >= 2,
)


def run(tier, seed, replay=None):
    return run_diff_property('C12', CFG, tier, seed, replay)
