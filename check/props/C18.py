from check import run_diff_property

def varint_wrong(o, i):
    """the decoder returned an integer that is not the value RFC 7541 section 5.1 assigns to the octets it consumed (e.g. a
    value wrapped modulo 2^64): a concrete failing input whatever any model says"""
    if not (o.startswith('rdvarint ') and i.startswith('ok ')):
        return False
    try:
        _, n, hx = o.split(' ')
        n, b = int(n), bytes.fromhex(hx)
        _, v, used = i.split(' ')
        v, used = int(v), int(used)
        if used < 1 or used > len(b):
            return True
        val = b[0] & ((1 << n) - 1)
        if val == (1 << n) - 1:
            m = 0
            for k in range(1, used):
                val += (b[k] & 0x7f) << m
                m += 7
            if b[used - 1] & 0x80:
                return True          # stopped in the middle of the integer
        elif used != 1:
            return True
        return val != v
    except Exception:
        return False


def table_differs(o, i, m):
    """the dynamic table's content is specified by RFC 7541 section 4.4 and the model's table has been proved to be exactly
    that (C18.add_exact, exact_fit_kept, setMaxSize_bounded): an implementation whose table differs after the same
    operations violates the property on this very input"""
    if o.split(' ', 1)[0] not in ('hpenc', 'hpdec'):
        return False
    ti = [t for t in i.split(' ') if t.startswith('tab=')]
    tm = [t for t in m.split(' ') if t.startswith('tab=')]
    return bool(ti and tm and ti != tm and 'dead' not in ti[0] and 'dead' not in tm[0])


CFG = dict(
    streams=[('hpack', 600, 12000)],
    oracle_ops={'hprt', 'hpfrag'},
    self_evident=lambda o, i: i.startswith('panic') or varint_wrong(o, i),
    spec_part=table_differs,
    rule=("(a) encoder operation sequences (fields with any bytes in names/values, repeated fields, fields larger than the table, "
          "sensitive fields, SetMaxDynamicTableSize / Limit schedules): every WriteField's bytes and the table compared with the "
          "model; (b) ORACLE round trip: the real decoder on the real encoder's output must return the same fields, order and "
          "sensitivity and end with an identical dynamic table; (c) the decoder on encoder output / bit flips / truncations / random "
          "bytes, whole and in random fragments, with table sizes 0..65536 and string-length limits: fields, error class and table "
          "compared with the model; (d) ORACLE fragment independence incl. legal representations with non-minimal length prefixes; "
          "(e) Huffman encode/decode incl. corrupted and over-padded input; (f) varints at every prefix-size boundary. "
          "non-trivial = operation with >= 12 characters of payload"),
    assumptions=[
        "a decoder that returned an error is dead (its table is no longer compared)",
        "pkg/http2 links golang.org/x/net v0.19.0's hpack, not this copy; results transfer only where the two copies agree (they differ by the fixes recorded in KNOWN_FINDINGS.json)",
    ],
    nontrivial=lambda o, i: len(o) > 20,
)


def run(tier, seed, replay=None):
    return run_diff_property('C18', CFG, tier, seed, replay)
