from check import run_diff_property
import lib

FIELDS = {'ja3', 'ja4', 'h2', 'xff', 'st'}
CFG = dict(
    streams=[('e2emulti', 25, 300)],
    oracle_ops={'e2emulti'},
    twophase_ops={'e2emulti'},
    project={'e2emulti': lib.multi(f1=lib.proj_e2e(FIELDS))},
    race=True,
    rule=("2..32 (thorough: ..64) concurrent clients against ONE real stack built with -race: crypto/tls clients with different "
          "cipher/curve/version settings and ten utls browser presets, h1 keep-alive (1-3 sequential requests) and h2 "
          "(own SETTINGS/WINDOW_UPDATE/PRIORITY preamble, 1-3 multiplexed requests), from three peer addresses, random start "
          "delays, connections closed as soon as each client is done; every backend request is compared with the specification "
          "values of ITS OWN connection's observed ClientHello and frames. non-trivial = every batch"),
    assumptions=[
        "goroutine scheduling is sampled, not enumerated: the theorem covers the event model for every interleaving",
        "the race detector (harness built with -race) reports unsynchronised access between connections as a harness failure",
    ],
)


def run(tier, seed, replay=None):
    return run_diff_property('C06', CFG, tier, seed, replay)
