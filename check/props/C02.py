from check import run_diff_property
import lib

CFG = dict(
    streams=[('ja4', 3000, 40000), ('e2e', 150, 2500), ('rw', 800, 12000), ('e2emulti', 8, 150)],
    race_streams={'e2emulti'},
    oracle_ops={'ja4spec', 'e2e', 'rwspec05', 'e2emulti'},
    twophase_ops={'e2e', 'e2emulti'},
    project={'e2e': lib.proj_e2e({'ja4', 'st'}), 'e2emulti': lib.multi(f1=lib.proj_e2e({'ja4', 'st'}))},
    ops_filter={'ser', 'ja4', 'ja4spec', 'e2e', 'rwspec05', 'e2emulti'},
    rule=("DELIVERY: the handler in-process with scripted injector sets (default three + custom, shuffled order, value / empty / "
          "error outcomes): what the backend receives under each injected name against Fp.Spec.Proxy.specValues. "
          "structured well-formed ClientHellos (cipher/extension lists 0..130 with GREASE forced first/last/only/all, known "
          "extension types with bodies utls accepts, unknown types with random bodies, supported_versions with GREASE / only "
          "GREASE, signature_algorithms with GREASE inserted, ALPN of 1/2/3+ bytes and non-ASCII, padding, no-extension hellos) "
          "through fingerprint.JA4Fingerprint; plus truncations, bit flips, trailing bytes. non-trivial = record longer than 40 bytes"),
    assumptions=[
        "bodies of the extension types utls validates but JA4 does not read are ones utls accepts (OpaqueOthersOK; boundary of finding D10)",
        "SHA-256 is a parameter of the theorems; the checker applies hashlib.sha256()[:12] to the model's inputs",
        "utls v1.6.0 FromRaw is mirrored for the generic walk and the five extension bodies JA4 reads; it lives in the module cache",
    ],
    nontrivial=lambda o, i: len(o) > 40,
)


def run(tier, seed, replay=None):
    return run_diff_property('C02', CFG, tier, seed, replay)
