from check import run_diff_property
import lib

CFG = dict(
    streams=[('ja3', 3000, 40000), ('e2e', 150, 2500), ('rw', 800, 12000), ('e2emulti', 8, 150)],
    race_streams={'e2emulti'},
    oracle_ops={'ja3spec', 'ja3fpspec', 'e2e', 'rwspec05', 'e2emulti'},
    twophase_ops={'e2e', 'e2emulti'},
    ops_filter={'ja3', 'ja3fp', 'ja3spec', 'ja3fpspec', 'ser', 'e2e', 'rwspec05', 'e2emulti'},
    project={'e2e': lib.proj_e2e({'ja3', 'st'}), 'e2emulti': lib.multi(f1=lib.proj_e2e({'ja3', 'st'}))},
    rule=("structured well-formed ClientHellos (list lengths 0,1,2,3..130 with GREASE forced first/last/only/all, "
          "no-extension hellos, SNI lengths swept over 250..260 and 505..520) serialised and pushed through "
          "tlsx+ja3.Bare / fingerprint.JA3Fingerprint; plus truncations, bit flips, trailing bytes and random bytes; "
          "thorough adds every uint16 as singleton cipher/extension/group; plus the handler in-process with scripted injector sets "
          "(default three + custom, shuffled order, value / empty / error outcomes): what the backend receives under each name "
          "against Fp.Spec.Proxy.specValues (delivery clause). distinct = distinct operation lines; "
          "non-trivial = the implementation produced a value or a classified error for a non-empty record"),
    assumptions=[
        "crypto/tls accepts only hellos that are well-formed in the sense of Fp.Tls.WellFormed (validated by the accept stream)",
        "MD5 is a parameter of the theorems; the checker applies hashlib.md5 to the model's JA3 string",
        "tlsx v1.0.1 is mirrored line by line (model Fp.JA3.parseBasic); it lives in the module cache, not in /repo",
    ],
    nontrivial=lambda o, i: len(o) > 40,
)


def run(tier, seed, replay=None):
    return run_diff_property('C01', CFG, tier, seed, replay)
