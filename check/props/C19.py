from check import run_diff_property

def over_limit(o, i):
    """the reader handed out a frame whose payload is larger than the configured read limit (a concrete failing input)"""
    if not o.startswith('frd '):
        return False
    try:
        kv = dict(t.split('=', 1) for t in o.split(' ')[1:])
        limit, b = int(kv['max']), bytes.fromhex(kv['b'])
        yielded = [t for t in i.split(' ') if t and not t.startswith('err:') and t not in ('eof', 'panic')]
        pos = 0
        for _ in yielded:
            if pos + 9 > len(b):
                return False
            n = int.from_bytes(b[pos:pos + 3], 'big')
            if n > min(limit, (1 << 24) - 1):
                return True
            pos += 9 + n
    except Exception:
        return False
    return False


def accepts_what_the_rfc_rejects(o, i, m):
    """the reader handed out a frame at a point where the model reports an HTTP/2 error; the model's rejections are proved to be
    the RFC's (C19.continuation_discipline, fixed_length_frames, short_frames, stream_zero_rules, window_update_nonzero,
    parse_error_is_h2_error), so the input is a frame sequence the implementation wrongly accepts"""
    if not o.startswith('frd '):
        return False
    it, mt = i.split(' '), m.split(' ')
    for a, b in zip(it, mt):
        if a != b:
            return (b.startswith('err:conn') or b.startswith('err:stream')) and not a.startswith('err') and a != 'eof'
    return False


CFG = dict(
    streams=[('frame', 2500, 40000)],
    issue_prefixes=['frame:'],
    oracle_ops={'frt', 'frtmeta', 'frtmeta2', 'frdspec'},
    self_evident=lambda o, i: 'panic' in i or over_limit(o, i),
    spec_part=accepts_what_the_rfc_rejects,
    rule=("every Write* method with boundary parameters (stream ids 0, 1, 2^31-1, 2^31, 2^32-1; payloads 0..16384 bytes; padding "
          "0..255 and 256, non-zero pad bytes; priority with reserved bit; settings incl. INITIAL_WINDOW_SIZE 2^31; window increments "
          "0, 1, 2^31-1, 2^31; raw frames of every type 0..10 and 200 with arbitrary flags and short/odd lengths): written bytes "
          "compared with the model; ORACLE: what the framer accepts to write (RFC-valid values) it reads back as the same frame, "
          "header blocks reassembled across CONTINUATION with ReadMetaHeaders; the reader on written streams followed by raw frames, "
          "with header bit flips and truncations, under read limits 0, 5, 100, 16384, 2^24-1: every frame and the terminating error "
          "class compared with the model; no frame above the limit. non-trivial = operation with >= 12 characters of arguments"),
    assumptions=[
        "io.Reader semantics of io.ReadFull (EOF vs unexpected EOF) as modelled",
        "ReadMetaHeaders (hpack + field validation) is exercised by the round-trip oracle, its rejection classes are part of C13's server model",
    ],
    nontrivial=lambda o, i: len(o) > 16,
)


def run(tier, seed, replay=None):
    return run_diff_property('C19', CFG, tier, seed, replay)
