from check import run_diff_property
import lib

CFG = dict(
    streams=[('h2marshal', 3000, 60000), ('h2fp', 400, 6000, 'http2test'), ('e2e', 150, 2500), ('rw', 800, 12000), ('e2emulti', 8, 150)],
    race_streams={'e2emulti'},
    oracle_ops={'h2fp', 'e2e', 'rwspec05', 'e2emulti'},
    twophase_ops={'e2e', 'e2emulti'},
    ops_filter={'h2marshal', 'h2fp', 'e2e', 'rwspec05', 'e2emulti'},
    project={'e2e': lib.proj_e2e({'h2', 'st'}), 'e2emulti': lib.multi(f1=lib.proj_e2e({'h2', 'st'}))},
    http2_ops={'h2fp', 'h2fpm'},
    rule=("DELIVERY: the handler in-process with scripted injector sets (default three + custom, shuffled order, value / empty / "
          "error outcomes): what the backend receives under each injected name against Fp.Spec.Proxy.specValues. "
          "(a) Marshal(n) on generated records (settings incl. unknown ids and 32-bit extremes, WU incl. 0/one digit/2^32-1, "
          "0..40 priorities with weight 0/255, header names incl. ':', '', ':|') for every limit class "
          "(0, 1, len-1, len, len+1, 2^64-1, 10000); (b) server-level: random ACCEPTED frame scripts (SETTINGS with unknown ids, "
          "ACK, WINDOW_UPDATE on conn/open/closed streams, PRIORITY on any stream, HEADERS with/without priority in any "
          "pseudo-header order incl. CONNECT, CONTINUATION splits, trailers, DATA, RST_STREAM, PING; up to ~45 requests) "
          "against the real serverConn in upstream's deterministic tester with a metadata context; each handler reports "
          "Marshal(n) as it sees it, compared with fpSpec of the delivered prefix. non-trivial = script with >= 1 request"),
    assumptions=[
        "the deterministic tester delivers one client frame at a time and waits for quiescence, so a handler observes exactly the prefix up to its own HEADERS (later points are the subject of C07)",
        "WINDOW_UPDATE increments delivered to processFrame are non-zero (framer; hypothesis WUNonZero)",
        "delivered header blocks passed checkPseudos (hypothesis PseudoOK for four_parts)",
        "fmt %d/%02d rendering modelled by Fp.dec/dec02 (validated by the differential incl. 32-bit extremes)",
    ],
    nontrivial=lambda o, i: o.startswith('h2marshal') or 'H:' in o,
)


def run(tier, seed, replay=None):
    return run_diff_property('C03', CFG, tier, seed, replay)
