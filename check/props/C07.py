from check import run_diff_property
import lib

CFG = dict(
    streams=[('h2conc', 60, 1500, 'http2test'), ('e2emulti', 10, 150)],
    oracle_ops={'h2conc', 'e2emulti'},
    twophase_ops={'h2conc', 'e2emulti'},
    http2_ops={'h2conc'},
    project={'e2emulti': lib.multi(f1=lib.proj_e2e({'h2'}))},
    race=True,
    rule=("server-level, built with -race: the client writes a whole script (requests interleaved with SETTINGS / WINDOW_UPDATE / "
          "PRIORITY / HEADERS+priority; every fourth script ends in a storm of 10-30 same-size SETTINGS frames with changing values, "
          "each followed by a request; the test connection's wait-after-write is switched off so the serve loop really runs "
          "against the marshalling handlers) "
          "PRIORITY / HEADERS+priority, 8..80 frames, up to ~25 concurrently open streams) WITHOUT waiting for quiescence while every "
          "handler marshals the fingerprint 400 times; each distinct value observed must be fpSpec of the history at one instant not "
          "earlier than the request's own HEADERS (else TORN); race-detector reports are violations. Plus concurrent multi-client "
          "end-to-end batches (-race). non-trivial = script with >= 2 requests"),
    assumptions=[
        "Go's memory model is represented only by: regions under the record's mutex are atomic, unlocked accesses are not",
        "the race detector finds schedules; it does not replace the theorem",
    ],
    nontrivial=lambda o, i: o.count('H:') >= 2 or o.startswith('e2emulti'),
)


def run(tier, seed, replay=None):
    return run_diff_property('C07', CFG, tier, seed, replay)
