from check import run_diff_property

CFG = dict(
    streams=[('survive', 60, 1500)],
    oracle_ops={'survive'},
    rule=("every scenario runs in a CHILD process holding the real stack: a panic injected once at GetCertificate / "
          "GetConfigForClient / VerifyConnection / ConnState / request handler / header injector on both protocols; the client "
          "closing or resetting after n bytes written (n random over handshake and HTTP traffic of an h1 and an h2 session); a "
          "read / write / deadline error injected at the k-th I/O operation of the server-side connection; 160 MiB uploads on both "
          "protocols after hellos with record versions inside and outside the accepted range under a 64 MiB heap bound (a heap "
          "that grows with one client's bytes ends the process); a stream reset while one of its DATA frames is being written, "
          "followed by 12 rounds of control clients on other connections (GOMAXPROCS 1 and 4); mutated, truncated "
          "and extended ClientHello records; hostile HTTP/2 byte streams after a real handshake. After each: the process must be "
          "alive and a control client must be served on both protocols. non-trivial = every scenario"),
    assumptions=[
        "net/http recovers panics on its per-connection goroutine (HTTP/1.1 path)",
        "absence of panics in the whole Go code is not proved; it is proved for the modelled parsers (C04, C18, C19) and explored elsewhere",
        "Serve returning on an Accept error (D16) is outside this property's quantifier",
    ],
)


def run(tier, seed, replay=None):
    return run_diff_property('C10', CFG, tier, seed, replay)
