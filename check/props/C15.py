from check import run_diff_property
import lib

CFG = dict(
    streams=[('rw', 2500, 40000), ('e2e', 150, 2500)],
    oracle_ops={'rwspec15', 'e2e', 'envbool'},
    twophase_ops={'e2e'},
    project={'e2e': lib.proj_e2e({'st', 'body'})},
    ops_filter={'rw', 'rwspec15', 'e2e', 'envbool'},
    rule=("HTTPHandler.ServeHTTP in-process: User-Agent absent / empty / 'kube-probe/…' / exactly the prefix / infix / case "
          "variant / probe text only on a second User-Agent line / prefix without slash plus the text in another header / "
          "probe on the first of two lines, crossed with methods, paths, probe support on/off and all other header noise of "
          "the rw stream. non-trivial = every case (each has a User-Agent class tag)"),
    assumptions=[
        "http.Request.UserAgent() is the first User-Agent value (net/http); both server paths canonicalise header names",
        "the flag -> IsProbeRequest wiring is a regenerated fact (handlerWiring); both protocols are exercised by the e2e stream",
    ],
)


def run(tier, seed, replay=None):
    return run_diff_property('C15', CFG, tier, seed, replay)
