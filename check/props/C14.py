from check import run_diff_property

CFG = dict(
    streams=[('cert', 14, 200)],
    oracle_ops={'cert', 'certrace'},
    race=True,
    rule=("real file system, real fsnotify, real CertWatcher behind defaultTLSConfig: histories of 2..16 update steps in one of the "
          "three styles — in place (truncate, garbage, partial write, full write, either file order), rename of a new file over "
          "the path (either order), kubernetes-style swap of the symlinked directory (matching and mismatched pairs) — after every "
          "step the harness waits for the watcher to go quiet and handshakes; the presented pair is compared with the model's "
          "`served`. non-trivial = every history"),
    assumptions=[
        "fsnotify/inotify semantics (an event for a write to, or the unlinking of, the watched inode) are an assumed contract, validated by this stream",
        "event latency is real time: the harness polls until the presented pair is stable for 120 ms (limit 1.5 s)",
        "tls.LoadX509KeyPair accepts exactly matching, well-formed pairs",
    ],
)


def run(tier, seed, replay=None):
    return run_diff_property('C14', CFG, tier, seed, replay)
