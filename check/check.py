#!/usr/bin/env python3
"""check.py Cxx [--tier quick|thorough] [--replay FILE]   (cwd=/verif; VERIF_SEED / VERIF_TIER honoured)"""
import argparse, importlib, json, os, shutil, sys, tempfile
sys.path.insert(0, os.path.dirname(os.path.abspath(__file__)))
import lib, known
from lib import Report, MachineryError


def diff_streams(rep, prop, cfg, tier, seed, binary, workdir, kf):
    """Run corpus + generated streams; returns (oracle_failures, corr_failures)."""
    oracle_fail, corr_fail = [], []
    oracle_ops = cfg.get('oracle_ops', set())
    jobs = []
    cdir = f'{lib.ROOT}/corpus/{prop}'
    if os.path.isdir(cdir):
        for f in sorted(os.listdir(cdir)):
            if f.endswith('.ops'):
                jobs.append(('corpus:' + f, ['exec', 'corpus_' + f[:-4], os.path.join(cdir, f), workdir], 'corpus_' + f[:-4]))
    executors = {}
    for ent in cfg['streams']:
        name, qn, tn = ent[:3]
        n = tn if tier == 'thorough' else qn
        jobs.append((name, ['gen', name, str(seed), str(n), workdir], name))
        if len(ent) > 3:
            executors[name] = ent[3]
    for c in cfg.get('corpus_exec', {}):
        executors['corpus:' + c] = cfg['corpus_exec'][c]
    race_reports = cfg.setdefault('_race_reports', [])
    for label, args, fname in jobs:
        e = dict(os.environ, VERIF_TIER=tier, GOMEMLIMIT='6GiB')
        raced = cfg.get('race') or label in cfg.get('race_streams', ())
        if raced:
            # the race detector FINDS the schedule; reports go to files, the run continues
            e['GORACE'] = f'halt_on_error=0 exitcode=0 log_path={workdir}/race-{fname}'
            os.environ['VERIF_GORACE'] = e['GORACE']
        rc, out = lib.sh([cfg['_race_binary'] if (raced and not cfg.get('race')) else binary] + args, env=e, timeout=6000)
        if rc != 0:
            crash = lib.code_under_test_panic(out)
            if crash:
                # the code under test panicked outside a recovered operation (e.g. while the generator was using it to
                # build the next input): a verdict, not a machinery error; the other streams still run
                cfg.setdefault('_crashes', []).append(dict(crash, stream=label))
                continue
            raise MachineryError(f'harness {label} failed rc={rc}:\n{out[-3000:]}')
        ops_p, impl_p, model_p = (f'{workdir}/{fname}.{x}' for x in ('ops', 'impl', 'model'))
        if executors.get(label) == 'http2test':
            lib.exec_http2(cfg['_http2test'], ops_p, impl_p)
        two = cfg.get('twophase_ops')
        if two:
            # two-phase operations: the driver predicts from the operation AND what the harness observed of the
            # client's own bytes (e.g. the ClientHello a TLS library chose to send)
            o_l = open(ops_p).read().split('\n')
            i_l = open(impl_p).read().split('\n')
            if o_l and o_l[-1] == '':
                o_l.pop()
            with open(ops_p + '.drv', 'w') as f:
                for o, i in zip(o_l, i_l):
                    f.write((o + ' @@ ' + i if o.split(' ', 1)[0] in two else o) + '\n')
            lib.run_driver(ops_p + '.drv', model_p)
        else:
            lib.run_driver(ops_p, model_p)
        rd = lambda p: [l for l in open(p).read().split('\n')]
        ops, impl, model = rd(ops_p), rd(impl_p), rd(model_p)
        for l in (ops, impl, model):
            if l and l[-1] == '':
                l.pop()
        if not (len(ops) == len(impl) == len(model)):
            raise MachineryError(f'{label}: line counts differ ops={len(ops)} impl={len(impl)} model={len(model)}')
        dp = f'{workdir}/{fname}.dist'
        if os.path.exists(dp):
            d = {}
            for l in open(dp):
                k, v = l.rsplit(' ', 1)
                d[k] = int(v)
            rep.add_dist(d, label + '/')
        nfail = 0
        only = cfg.get('ops_filter')
        for o, i, m in zip(ops, impl, model):
            kind = o.split(' ', 1)[0]
            if only and kind not in only:
                continue
            m = lib.canon_model(m)
            if m.startswith('okif '):
                # conditional model answer: "IF the third-party validators accept the opaque bodies THEN this value"
                m = i if i == 'err' else 'ok ' + m[5:]
            if kind in cfg.get('twophase_ops', ()):
                i, m = (lib.multi(f2=lib.reconcile_any) if kind == 'e2emulti' else lib.reconcile_any)(i, m)
            proj = cfg.get('project')
            if proj and kind in proj:
                i, m = proj[kind](i), proj[kind](m)
            rep.case(o, nontrivial=cfg.get('nontrivial', lambda o, i: True)(o, i))
            if len(rep.samples) < 4 and kind in oracle_ops:
                rep.sample(f'{o}  =>  impl: {i}')
            if i == m:
                continue
            # `accept`: the property's own (weaker) relation between the implementation's answer and the specification
            # value, where the property does not demand equality (e.g. "this value or no header at all")
            acc = cfg.get('accept')
            if acc and acc(o, i, m):
                continue
            kid = known.match(kf, o, i, m)
            if kid:
                rep.known_hits[kid] = rep.known_hits.get(kid, 0) + 1
                continue
            nfail += 1
            rec = {'stream': label, 'op': o, 'impl': i, 'expected': m}
            # `self_evident`: the implementation's answer alone demonstrates the violation (e.g. the harness's own
            # transparency verdict, a panic where the property says "never panics"): a concrete failing input
            se = cfg.get('self_evident')
            # `spec_part`: the part of a correspondence operation's answer for which the model has been PROVED to be the
            # specification (e.g. the HPACK table content, by C18.add_exact): a difference there is a property violation
            sp = cfg.get('spec_part')
            (oracle_fail if kind in oracle_ops or (se and se(o, i)) or (sp and sp(o, i, m)) else corr_fail).append(rec)
        rep.oblige(f'correspondence:{label}', 'correspondence', nfail == 0, f'{len(ops)} operations, {nfail} disagreement(s)')
        if raced:
            import glob
            n0 = len(race_reports)
            for rf in sorted(glob.glob(f'{workdir}/race-{fname}*')):
                txt = open(rf, errors='replace').read()
                for blk in txt.split('==================')[1::2]:
                    if 'DATA RACE' in blk:
                        if lib.race_concerns_fingerprint_data(blk):
                            race_reports.append({'stream': label, 'report': blk.strip()[:6000]})
                        else:
                            # a race between pieces of code that never touch the captured / forwarded fingerprint data is
                            # not what C01-C07 state; it is recorded (evidence, DESIGN.md 14.3), not raised
                            cfg.setdefault('_race_other', []).append({'stream': label, 'report': blk.strip()[:3000]})
            rep.oblige(f'race-detector:{label}', 'race-detector', len(race_reports) == n0,
                       f'{len(race_reports) - n0} data race report(s)')
    return oracle_fail, corr_fail


def shortest(fails):
    # (an operation the harness could not even run to the end tells less than one with an answer)
    return min(fails, key=lambda r: ('harness-crashed' in r.get('impl', ''), len(r['op'])))


def run_diff_property(prop, cfg, tier, seed, replay=None):
    rep = Report(prop, tier, seed)
    rep.rule = cfg['rule']
    rep.assumptions = cfg['assumptions']
    kf = lib.load_known(prop)
    issues, facts = lib.regen()
    for i in issues:
        if any(i.startswith(p) for p in cfg.get('issue_prefixes', [])):
            rep.oblige('translator:' + i[:80], 'generated-fact', False, i)
    aud = lib.audit(prop)
    for t in aud['theorems']:
        rep.oblige(t['name'], 'theorem', set(t['axioms']) <= lib.ALLOWED_AXIOMS, 'axioms: ' + ', '.join(t['axioms']))
    rep.extra['nonvacuity_examples'] = aud['examples']
    broken = []
    if not aud['ok']:
        for e in aud['errors']:
            nm = e.get('theorem') or '?'
            broken.append(f"{e['file']}:{e['line']} {nm}: {e['msg']}")
            rep.oblige(f"{e['file']}:{nm}", 'theorem', False, e['msg'])
        for b in aud['bad_axioms']:
            broken.append(f"{b['theorem']} uses axioms {b['axioms']}")
        for f in aud['forbidden']:
            broken.append('forbidden token: ' + f)
            rep.oblige('forbidden:' + f, 'audit', False)
    if tier == 'thorough' and aud['ok']:
        # the toolchain's independent re-checker replays the compiled declarations of the property's modules (and of
        # everything they import) through the kernel once more
        for m in lib.property_modules(prop):
            with lib.Lock('lake'):
                rc, out = lib.sh(['lake', 'env', 'leanchecker', f'FpVerif.Properties.{m}'], cwd=lib.LEAN, timeout=3600)
            okc = rc == 0 and 'uncaught exception' not in out
            rep.oblige(f'leanchecker:{m}', 'audit', okc, out.strip()[-300:])
            if not okc:
                broken.append(f'leanchecker rejects FpVerif.Properties.{m}: {out.strip()[-300:]}')
    ok, out = lib.build_driver()
    if not ok:
        errs = lib.lean_errors(out)
        rep.oblige('driver-build', 'model', False, json.dumps(errs)[:500])
        rep.violation('the executable model no longer compiles against the regenerated facts',
                      {'property': prop, 'broken': errs or out[-800:], 'proof_errors': broken}, no_input=True)
        return rep.finish()
    ok, out, binary = lib.build_harness(race=cfg.get('race', False))
    if not ok:
        raise MachineryError('harness build failed (the working tree may not compile):\n' + out[-3000:])
    if cfg.get('race_streams') and not cfg.get('race'):
        ok, out, rb = lib.build_harness(race=True)
        if not ok:
            raise MachineryError('harness build (-race) failed:\n' + out[-3000:])
        cfg = dict(cfg, _race_binary=rb)
    if cfg.get('http2_ops') or any(len(e) > 3 and e[3] == 'http2test' for e in cfg['streams']):
        ok, out, tb = lib.build_http2_test(race=cfg.get('race', False))
        if not ok:
            raise MachineryError('pkg/http2 test harness build failed:\n' + out[-3000:])
        cfg = dict(cfg, _http2test=tb)
    workdir = tempfile.mkdtemp(prefix=f'{prop}-', dir=lib.BUILD)
    try:
        if replay:
            r = json.load(open(replay))
            opsf = os.path.join(workdir, 'replay.ops')
            open(opsf, 'w').write(r['op'] + '\n')
            cfg = dict(cfg, streams=[])
            os.makedirs(f'{workdir}/c', exist_ok=True)
            if r['op'].split(' ', 1)[0] in cfg.get('http2_ops', set()):
                lib.exec_http2(cfg['_http2test'], opsf, f'{workdir}/replay.impl')
            else:
                rc, out = lib.sh([binary, 'exec', 'replay', opsf, workdir])
            i = open(f'{workdir}/replay.impl').read().strip()
            if r['op'].split(' ', 1)[0] in cfg.get('twophase_ops', set()):
                open(f'{workdir}/replay.ops', 'w').write(r['op'] + ' @@ ' + i + '\n')
            lib.run_driver(f'{workdir}/replay.ops', f'{workdir}/replay.model')
            m = lib.canon_model(open(f'{workdir}/replay.model').read().strip())
            if m.startswith('okif '):
                m = i if i == 'err' else 'ok ' + m[5:]
            kind = r['op'].split(' ', 1)[0]
            if kind in cfg.get('twophase_ops', ()):
                i, m = (lib.multi(f2=lib.reconcile_any) if kind == 'e2emulti' else lib.reconcile_any)(i, m)
            if cfg.get('project') and kind in cfg['project']:
                i, m = cfg['project'][kind](i), cfg['project'][kind](m)
            print('op      :', r['op'][:400])
            print('impl    :', i[:400])
            print('expected:', m[:400])
            print('AGREE' if i == m else 'DISAGREE')
            return 0 if i == m else 1
        oracle_fail, corr_fail = diff_streams(rep, prop, cfg, tier, seed, binary, workdir, kf)
        extra = cfg.get('extra')
        if extra:
            extra(rep, tier, seed, binary, workdir, kf, oracle_fail, corr_fail)
    finally:
        shutil.rmtree(workdir, ignore_errors=True)
    replay_cmd = f'python3 check/check.py {prop} --replay {{path}}'
    for o in cfg.get('_race_other', [])[:3]:
        fr = [l.strip() for l in o['report'].split('\n') if l.strip().startswith(('github.com/', 'golang.org/'))][:2]
        print(f"NOTE property={prop} data race outside the fingerprint data (not part of this property's statement): " + ' <-> '.join(fr))
    races = cfg.get('_race_reports', [])
    if races:
        def frames(blk):
            return [l.strip() for l in blk.split('\n') if l.strip().startswith(('github.com/wi1dcard', 'main.')) ][:12]
        rep.violation(f"the race detector reports unsynchronised concurrent access ({len(races)} report(s)); first: " + ' <- '.join(frames(races[0]['report'])[:4]),
                      {'property': prop, 'seed': seed, 'tier': tier, 'kind': 'data-race', 'stream': races[0]['stream'],
                       'report': races[0]['report'], 'reports': len(races),
                       'replay_cmd': f'python3 check/check.py {prop} --tier {tier}  (VERIF_SEED={seed}; harness built with -race)'})
    if oracle_fail:
        r = shortest(oracle_fail)
        rep.violation(f"property oracle: implementation answers '{r['impl'][:120]}' where the specification gives '{r['expected'][:120]}' ({len(oracle_fail)} failing case(s))",
                      dict(r, property=prop, seed=seed, tier=tier, replay_cmd=replay_cmd, broken_obligations=broken,
                           other_failures=len(oracle_fail) - 1))
    elif corr_fail:
        r = shortest(corr_fail)
        rep.violation(f"correspondence stream {r['stream']} no longer checks (model and implementation disagree on {len(corr_fail)} operation(s)) and no input violating the specification was found",
                      dict(r, property=prop, seed=seed, tier=tier, replay_cmd=replay_cmd, broken_correspondence=r['stream'],
                           broken_obligations=broken), no_input=True)
    elif cfg.get('_crashes'):
        c = cfg['_crashes'][0]
        rep.violation(f"the code under test panicked while stream {c['stream']} was running: {c['panic']} at {c['at']}",
                      dict(c, property=prop, seed=seed, tier=tier, kind='panic-in-code-under-test', broken_obligations=broken,
                           replay_cmd=f'python3 check/check.py {prop} --tier {tier}  (VERIF_SEED={seed})'), no_input=True)
    elif broken:
        rep.violation('proof obligation(s) no longer check: ' + '; '.join(broken)[:400],
                      {'property': prop, 'broken_obligations': broken, 'seed': seed, 'tier': tier}, no_input=True)
    return rep.finish()


def main():
    ap = argparse.ArgumentParser()
    ap.add_argument('prop')
    ap.add_argument('--tier', default=os.environ.get('VERIF_TIER') or 'quick')
    ap.add_argument('--replay')
    a = ap.parse_args()
    if a.tier not in ('quick', 'thorough'):
        a.tier = 'quick'
    try:
        seed = int(os.environ.get('VERIF_SEED', '1'))
    except ValueError:
        seed = 1
    os.chdir(lib.ROOT)
    mod = importlib.import_module('props.' + a.prop)
    try:
        rc = mod.run(a.tier, seed, a.replay)
    except MachineryError as e:
        print(f'ERROR (machinery, not a verdict) property={a.prop}: {e}')
        rc = 2
    except Exception:
        import traceback
        traceback.print_exc()
        print(f'ERROR (machinery crashed, not a verdict) property={a.prop}')
        rc = 2
    sys.exit(rc)


if __name__ == '__main__':
    main()
