//go:build verif

package fingerproxy

// Verification hook (added to the root package through `go build -overlay`; nothing is written under
// /repo): builds the proxy exactly as Run() does — defaultReverseProxyHTTPHandler, GetHeaderInjectors,
// defaultProxyServer, defaultTLSConfig, the real CertWatcher — from explicit option values instead of
// command-line flags, so that the REAL wiring is what the end-to-end harness exercises.

import (
	"context"
	"net/url"

	"github.com/prometheus/client_golang/prometheus"
	"github.com/wi1dcard/fingerproxy/pkg/certwatcher"
	"github.com/wi1dcard/fingerproxy/pkg/proxyserver"
)

type VerifOptions struct {
	ForwardURL           string
	CertFile, KeyFile    string
	PreserveHost         bool
	EnableProbe          bool
	MaxH2PriorityFrames  uint
	UnsetMaxPrio         bool // leave flagMaxHTTP2PriorityFrames nil (library use without CLI flags)
	FlushInterval        string
	IdleTimeout          string
	ReadTimeout          string
	WriteTimeout         string
	TLSHandshakeTimeout  string
	Verbose              bool
}

type VerifStack struct {
	Server      *proxyserver.Server
	CertWatcher *certwatcher.CertWatcher
	Registry    *prometheus.Registry
}

func VerifBuild(ctx context.Context, o VerifOptions) (*VerifStack, error) {
	s := func(v string) *string { return &v }
	flagForwardURL = s(o.ForwardURL)
	flagCertFilename, flagKeyFilename = s(o.CertFile), s(o.KeyFile)
	flagPreserveHost = &o.PreserveHost
	flagEnableKubernetesProbe = &o.EnableProbe
	if o.UnsetMaxPrio {
		flagMaxHTTP2PriorityFrames = nil
	} else {
		flagMaxHTTP2PriorityFrames = &o.MaxH2PriorityFrames
	}
	flagReverseProxyFlushInterval = s(o.FlushInterval)
	flagTimeoutHTTPIdle, flagTimeoutHTTPRead, flagTimeoutHTTPWrite = s(o.IdleTimeout), s(o.ReadTimeout), s(o.WriteTimeout)
	flagTimeoutTLSHandshake = s(o.TLSHandshakeTimeout)
	flagVerboseLogs = &o.Verbose
	PrometheusRegistry = prometheus.NewRegistry()

	cw, err := certwatcher.New(o.CertFile, o.KeyFile)
	if err != nil {
		return nil, err
	}
	u, err := url.Parse(o.ForwardURL)
	if err != nil {
		return nil, err
	}
	_ = u
	server := defaultProxyServer(
		ctx,
		defaultReverseProxyHTTPHandler(parseForwardURL(), GetHeaderInjectors()),
		defaultTLSConfig(cw),
	)
	return &VerifStack{Server: server, CertWatcher: cw, Registry: PrometheusRegistry}, nil
}

// VerifEnvBool exposes the boolean environment reader the flag defaults are built from (ENABLE_KUBERNETES_PROBE, ...).
func VerifEnvBool(key string, def bool) bool { return envWithDefaultBool(key, def) }
