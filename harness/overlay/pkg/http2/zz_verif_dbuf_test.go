//go:build verif

package http2

import (
	"errors"
	"fmt"
	"io"
	"strconv"
	"strings"
	"testing"
)

// dbuf expected=<n> ops=<op;op;...> on one pipe whose buffer is a dataBuffer{expected: n}:
//   w<len>.<seed>  dataBuffer.Write      r<n>  dataBuffer.Read(len n)
//   pw<len>.<seed> pipe.Write            pr<n> pipe.Read(len n) (reported as `block` when it would wait)
//   pc<code> CloseWithError   pb<code> BreakWithError   (code 0 = io.EOF)   pl pipe.Len
// byte j of a write with seed s is (s + 131*j) mod 251; data is reported as <n>:<order-sensitive checksum>
func verifSum(b []byte) int {
	acc := 7
	for _, x := range b {
		acc = (acc*31 + int(x) + 1) % 1000003
	}
	return acc
}

func init() {
	verifExecs["dbuf"] = func(t *testing.T, a []string) string {
		opsS, exp := "", int64(0)
		for _, x := range a {
			if strings.HasPrefix(x, "ops=") {
				opsS = x[4:]
			}
			if strings.HasPrefix(x, "expected=") {
				exp, _ = strconv.ParseInt(x[9:], 10, 64)
			}
		}
		db := &dataBuffer{expected: exp}
		p := &pipe{b: db}
		errOf := func(code int) error {
			if code == 0 {
				return io.EOF
			}
			return fmt.Errorf("verif-%d", code)
		}
		codeOf := func(err error) string {
			if err == io.EOF {
				return "E0"
			}
			var n int
			if _, e := fmt.Sscanf(err.Error(), "verif-%d", &n); e == nil {
				return fmt.Sprintf("E%d", n)
			}
			if errors.Is(err, errReadEmpty) {
				return "e"
			}
			return "E?" + strings.ReplaceAll(err.Error(), " ", "_")
		}
		gen := func(spec string) []byte {
			q := strings.Split(spec, ".")
			n, _ := strconv.Atoi(q[0])
			s, _ := strconv.Atoi(q[1])
			b := make([]byte, n)
			for j := range b {
				b[j] = byte((s + 131*j) % 251)
			}
			return b
		}
		var out []string
		for _, op := range strings.Split(opsS, ";") {
			if op == "" {
				continue
			}
			res := func() (res string) {
				defer func() {
					if r := recover(); r != nil {
						res = "panic"
					}
				}()
				num := func(s string) int { v, _ := strconv.Atoi(s); return v }
				switch {
				case strings.HasPrefix(op, "pw"):
					n, err := p.Write(gen(op[2:]))
					if err == errClosedPipeWrite {
						return "closed"
					}
					if err == errUninitializedPipeWrite {
						return "uninit"
					}
					if err != nil {
						return codeOf(err)
					}
					return fmt.Sprintf("ok%d", n)
				case strings.HasPrefix(op, "pr"):
					if !(p.breakErr != nil || p.err != nil || (p.b != nil && p.b.Len() > 0)) {
						return "block"
					}
					buf := make([]byte, num(op[2:]))
					n, err := p.Read(buf)
					if err != nil {
						return codeOf(err)
					}
					return fmt.Sprintf("d%d:%d", n, verifSum(buf[:n]))
				case strings.HasPrefix(op, "pc"):
					p.CloseWithError(errOf(num(op[2:])))
					return "-"
				case strings.HasPrefix(op, "pb"):
					p.BreakWithError(errOf(num(op[2:])))
					return "-"
				case op == "pl":
					return fmt.Sprintf("%d", p.Len())
				case op[0] == 'w':
					n, err := db.Write(gen(op[1:]))
					if err != nil {
						return codeOf(err)
					}
					return fmt.Sprintf("ok%d", n)
				case op[0] == 'r':
					buf := make([]byte, num(op[1:]))
					n, err := db.Read(buf)
					if err != nil {
						return codeOf(err)
					}
					return fmt.Sprintf("d%d:%d", n, verifSum(buf[:n]))
				}
				return "?"
			}()
			out = append(out, res)
		}
		var caps []string
		for _, c := range db.chunks {
			caps = append(caps, strconv.Itoa(len(c)))
		}
		w := "-"
		if len(db.chunks) > 0 {
			w = strconv.Itoa(db.w)
		}
		out = append(out, fmt.Sprintf("chunks=[%s] r=%d w=%s size=%d exp=%d plen=%d", strings.Join(caps, ","), db.r, w, db.size, db.expected, p.Len()))
		return strings.Join(out, " ")
	}
}
