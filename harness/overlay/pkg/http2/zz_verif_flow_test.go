//go:build verif

package http2

import (
	"fmt"
	"strconv"
	"strings"
	"testing"
)

// flow ops=<op;op;...> on one stream inflow, one connection inflow, one stream outflow with a connection outflow:
//   i<n> init stream inflow   I<n> init conn inflow   a<n> stream inflow.add   A<n> conn inflow.add
//   t<n> stream inflow.take   T<n> takeInflows(conn, stream, n)
//   oa<n> stream outflow.add  ca<n> conn outflow.add   ot<n> outflow.take   ov available
// one answer token per operation
func init() {
	verifExecs["flow"] = func(t *testing.T, a []string) string {
		opsS := ""
		for _, x := range a {
			if strings.HasPrefix(x, "ops=") {
				opsS = x[4:]
			}
		}
		var si, ci inflow
		var so, co outflow
		so.setConnFlow(&co)
		var out []string
		for _, op := range strings.Split(opsS, ";") {
			if op == "" {
				continue
			}
			res := func() (res string) {
				defer func() {
					if r := recover(); r != nil {
						res = "panic"
					}
				}()
				num := func(s string) int64 { v, _ := strconv.ParseInt(s, 10, 64); return v }
				switch {
				case op[0] == 'i':
					si.init(int32(num(op[1:])))
					return "-"
				case op[0] == 'I':
					ci.init(int32(num(op[1:])))
					return "-"
				case op[0] == 'a':
					return fmt.Sprintf("%d", si.add(int(num(op[1:]))))
				case op[0] == 'A':
					return fmt.Sprintf("%d", ci.add(int(num(op[1:]))))
				case op[0] == 't':
					return fmt.Sprintf("%v", b2i(si.take(uint32(num(op[1:])))))
				case op[0] == 'T':
					return fmt.Sprintf("%v", b2i(takeInflows(&ci, &si, uint32(num(op[1:])))))
				case strings.HasPrefix(op, "oa"):
					return fmt.Sprintf("%v", b2i(so.add(int32(num(op[2:])))))
				case strings.HasPrefix(op, "ca"):
					return fmt.Sprintf("%v", b2i(co.add(int32(num(op[2:])))))
				case strings.HasPrefix(op, "ot"):
					so.take(int32(num(op[2:])))
					return "-"
				case op == "ov":
					return fmt.Sprintf("%d", so.available())
				}
				return "?"
			}()
			out = append(out, res)
		}
		out = append(out, fmt.Sprintf("si=%d/%d ci=%d/%d so=%d co=%d", si.avail, si.unsent, ci.avail, ci.unsent, so.n, co.n))
		return strings.Join(out, " ")
	}
}
