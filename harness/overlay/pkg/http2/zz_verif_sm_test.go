//go:build verif

package http2

import (
	"fmt"
	"net/http"
	"strconv"
	"strings"
	"sync"
	"testing"

	"golang.org/x/net/http2/hpack"
)

// h2sm maxstreams=<n> ev=<tok,tok,...>: one scripted client against the real serverConn in the deterministic tester;
// after EVERY client frame the server's observable reactions are collected:
//   H<sid> user handler started, R<sid>:<code> RST_STREAM sent, G<last>:<code> GOAWAY sent, X connection closed
// answer: reactions per client frame, frames separated by '/'
func init() {
	verifExecs["h2sm"] = func(t *testing.T, a []string) string {
		maxStreams := uint32(100)
		var toks []string
		for _, x := range a {
			if strings.HasPrefix(x, "maxstreams=") {
				n, _ := strconv.ParseUint(x[11:], 10, 32)
				maxStreams = uint32(n)
			} else if strings.HasPrefix(x, "ev=") {
				toks = strings.Split(x[3:], ",")
			}
		}
		var mu sync.Mutex
		var started []string
		st, _ := newVerifTester(t, func(w http.ResponseWriter, r *http.Request) {
			id := w.(*responseWriter).rws.stream.id
			mu.Lock()
			started = append(started, fmt.Sprintf("H%d", id))
			mu.Unlock()
			if r.Header.Get("X-Mode") == "b" {
				<-r.Context().Done()
			}
		}, func(s *Server) { s.MaxConcurrentStreams = maxStreams })
		st.writePreface()
		collect := func() string {
			st.sync()
			var out []string
			mu.Lock()
			out = append(out, started...)
			started = nil
			mu.Unlock()
			for {
				f := st.readFrame()
				if f == nil {
					break
				}
				switch v := f.(type) {
				case *RSTStreamFrame:
					out = append(out, fmt.Sprintf("R%d:%d", v.StreamID, uint32(v.ErrCode)))
				case *GoAwayFrame:
					out = append(out, fmt.Sprintf("G%d:%d", v.LastStreamID, uint32(v.ErrCode)))
				}
			}
			return strings.Join(out, "+")
		}
		collect() // the server's own SETTINGS / WINDOW_UPDATE
		u := func(s string) uint32 { v, _ := strconv.ParseUint(s, 10, 32); return uint32(v) }
		var res []string
		for _, tk := range toks {
			kind, rest := tk[:1], ""
			if len(tk) > 2 {
				rest = tk[2:]
			}
			p := strings.Split(rest, ".")
			switch kind {
			case "H":
				sid, es, cls, mode := u(p[0]), p[1] == "1", p[3], p[4]
				var prio PriorityParam
				if p[2] != "-" {
					prio = PriorityParam{StreamDep: u(p[2]), Weight: 7}
				}
				st.headerBuf.Reset()
				enc := func(k, v string) { st.hpackEnc.WriteField(hpack.HeaderField{Name: k, Value: v}) }
				switch cls[0] {
				case 'q':
					enc(":method", "POST")
					enc(":scheme", "https")
					enc(":path", "/")
					enc(":authority", "x.test")
					enc("x-mode", mode)
					if cls[1:] != "-" {
						enc("content-length", cls[1:])
					}
				case 'C':
					enc(":method", "CONNECT")
					enc(":authority", "x.test:443")
					enc("x-mode", mode)
				case 'F':
					enc(":method", "GET")
					enc(":scheme", "https")
					enc(":path", "/")
					enc("Bad-Name", "v")
				case 'V':
					enc(":method", "GET")
					enc(":scheme", "https")
					enc(":path", "/")
					enc(":authority", "x.test\r\nx-injected: 1")
				case 'B':
					enc(":method", "GET")
					enc(":scheme", "https")
				case 'T':
					enc("x-trailer", "v")
				case 't':
					enc("content-length", "5")
				case 'P':
					enc(":method", "GET")
					enc(":scheme", "https")
					enc(":path", "/")
				}
				st.fr.WriteHeaders(HeadersFrameParam{StreamID: sid, BlockFragment: st.headerBuf.Bytes(), EndStream: es, EndHeaders: true, Priority: prio})
			case "S":
				var ss []Setting
				if rest != "" {
					for _, e := range strings.Split(rest, ";") {
						q := strings.Split(e, ".")
						ss = append(ss, Setting{ID: SettingID(u(q[0])), Val: u(q[1])})
					}
				}
				st.fr.WriteSettings(ss...)
			case "A":
				st.fr.WriteSettingsAck()
			case "D":
				n, _ := strconv.Atoi(p[1])
				st.fr.WriteData(u(p[0]), p[2] == "1", make([]byte, n))
			case "R":
				st.fr.WriteRSTStream(u(p[0]), ErrCodeCancel)
			case "P":
				st.fr.WritePriority(u(p[0]), PriorityParam{StreamDep: u(p[1]), Weight: 3})
			case "W":
				st.fr.AllowIllegalWrites = true
				st.fr.WriteWindowUpdate(u(p[0]), u(p[1]))
			case "G":
				st.fr.WritePing(false, [8]byte{1})
			case "Y":
				st.fr.WriteGoAway(0, ErrCodeNo, nil)
			case "X":
				st.fr.AllowIllegalWrites = true
				st.fr.WritePushPromise(PushPromiseParam{StreamID: u(p[0]), PromiseID: 2, BlockFragment: []byte{0x82}, EndHeaders: true})
			case "M":
				// nothing goes on the wire: the client's HPACK encoder will open its next header block with a dynamic table
				// size update (legal only at the beginning of a block — the server's decoder must have finished the last one)
				n, _ := strconv.Atoi(rest)
				st.hpackEnc.SetMaxDynamicTableSize(uint32(n))
				continue // no frame was written: no reaction slot
			case "U":
				st.fr.WriteRawFrame(FrameType(0xfa), 0, 0, []byte{1, 2, 3})
			case "Z":
				st.fr.WriteRawFrame(FrameType(u(p[0])), Flags(u(p[1])), u(p[2]), unhexVerif(p[3]))
			case "L":
				st.fr.WriteRawFrame(FrameData, 0, 1, make([]byte, 1<<20+1)) // above the server's read limit (1 MiB)
			}
			res = append(res, collect())
		}
		return strings.Join(res, "/")
	}
}

func init() {
	// the same scripted client, answered by the driver with the RFC reading for frames on streams the server itself has
	// just reset (reset-in-flight): an oracle operation
	verifExecs["h2smrif"] = func(t *testing.T, a []string) string { return verifExecs["h2sm"](t, a) }
}

func unhexVerif(s string) []byte {
	if s == "-" {
		return nil
	}
	b := make([]byte, len(s)/2)
	for i := range b {
		v, _ := strconv.ParseUint(s[2*i:2*i+2], 16, 8)
		b[i] = byte(v)
	}
	return b
}
