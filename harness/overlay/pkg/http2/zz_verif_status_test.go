//go:build verif

package http2

import (
	"fmt"
	"strconv"
	"strings"
	"testing"
)

// h2status codes=<c,c,...>: the status gates of the response path, per status code:
//   <code>:<1 if checkWriteHeaderCode(code) does not panic>/<1 if bodyAllowedForStatus(code)>
func init() {
	verifExecs["h2status"] = func(t *testing.T, a []string) string {
		var out []string
		for _, x := range a {
			if !strings.HasPrefix(x, "codes=") {
				continue
			}
			for _, cs := range strings.Split(x[6:], ",") {
				c, err := strconv.Atoi(cs)
				if err != nil {
					return "bad-op"
				}
				acc := 1
				func() {
					defer func() {
						if recover() != nil {
							acc = 0
						}
					}()
					checkWriteHeaderCode(c)
				}()
				body := 0
				if bodyAllowedForStatus(c) {
					body = 1
				}
				out = append(out, fmt.Sprintf("%d:%d/%d", c, acc, body))
			}
		}
		return strings.Join(out, " ")
	}
}
