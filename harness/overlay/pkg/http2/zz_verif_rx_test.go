//go:build verif

package http2

import (
	"fmt"
	"net/http"
	"strconv"
	"strings"
	"sync"
	"testing"

	"golang.org/x/net/http2/hpack"
)

// h2rx ev=<tok,...>: server receive-side flow control against the real serverConn in the deterministic tester.
//   H<sid>.<cl|->           open a POST stream (no END_STREAM); its handler waits for commands
//   D<sid>.<len>.<pad|->.<es>  DATA frame, optionally padded with <pad> bytes
//   R<sid>                  client RST_STREAM(CANCEL)
//   r<sid>.<n>              the handler calls Body.Read with an n-byte buffer (only when that cannot block)
//   x<sid>                  the handler returns
//   c<sid>                  the handler closes the request body (Body.Close()) and goes on
// after every token: WINDOW_UPDATE (W<sid>:<inc>), RST_STREAM (R<sid>:<code>), GOAWAY (G:<code>) written by the
// server and the result of a handler read (b<n> / bE / bW = would block, not called)
type verifRxCmd struct {
	read int // > 0: Read with this buffer size; 0: return
	res  chan string
}

func init() {
	verifExecs["h2rx"] = func(t *testing.T, a []string) string {
		var toks []string
		for _, x := range a {
			if strings.HasPrefix(x, "ev=") {
				toks = strings.Split(x[3:], ",")
			}
		}
		var mu sync.Mutex
		cmds := map[uint32]chan verifRxCmd{}
		bodies := map[uint32]*requestBody{}
		returned := map[uint32]bool{}
		started := make(chan uint32, 64)
		st, _ := newVerifTester(t, func(w http.ResponseWriter, r *http.Request) {
			id := w.(*responseWriter).rws.stream.id
			ch := make(chan verifRxCmd)
			mu.Lock()
			cmds[id] = ch
			bodies[id], _ = r.Body.(*requestBody)
			mu.Unlock()
			started <- id
			for c := range ch {
				if c.read == 0 {
					c.res <- ""
					return
				}
				if c.read < 0 {
					r.Body.Close()
					c.res <- ""
					continue
				}
				buf := make([]byte, c.read)
				n, err := r.Body.Read(buf)
				if n > 0 {
					c.res <- fmt.Sprintf("b%d", n)
				} else if err != nil {
					c.res <- "bE"
				} else {
					c.res <- "b0"
				}
			}
		})
		st.writePreface()
		collect := func(pre string) string {
			st.sync()
			var out []string
			if pre != "" {
				out = append(out, pre)
			}
			for {
				f := st.readFrame()
				if f == nil {
					break
				}
				switch v := f.(type) {
				case *WindowUpdateFrame:
					out = append(out, fmt.Sprintf("W%d:%d", v.StreamID, v.Increment))
				case *RSTStreamFrame:
					out = append(out, fmt.Sprintf("R%d:%d", v.StreamID, uint32(v.ErrCode)))
				case *GoAwayFrame:
					out = append(out, fmt.Sprintf("G:%d", uint32(v.ErrCode)))
				}
			}
			return strings.Join(out, "+")
		}
		st.fr.WriteSettings()
		st.fr.WriteSettingsAck()
		collect("") // SETTINGS, the initial connection WINDOW_UPDATE, SETTINGS ack
		u := func(s string) uint32 { v, _ := strconv.ParseUint(s, 10, 32); return uint32(v) }
		var res []string
		for _, tk := range toks {
			kind, rest := tk[:1], ""
			if len(tk) > 2 {
				rest = tk[2:]
			}
			p := strings.Split(rest, ".")
			pre := ""
			switch kind {
			case "H":
				st.headerBuf.Reset()
				enc := func(k, v string) { st.hpackEnc.WriteField(hpack.HeaderField{Name: k, Value: v}) }
				enc(":method", "POST")
				enc(":scheme", "https")
				enc(":path", "/")
				enc(":authority", "x.test")
				if p[1] != "-" {
					enc("content-length", p[1])
				}
				st.fr.WriteHeaders(HeadersFrameParam{StreamID: u(p[0]), BlockFragment: st.headerBuf.Bytes(), EndStream: false, EndHeaders: true})
				st.sync()
				select {
				case <-started:
				default:
				}
			case "D":
				n, _ := strconv.Atoi(p[1])
				if p[2] == "-" {
					st.fr.WriteData(u(p[0]), p[3] == "1", make([]byte, n))
				} else {
					pad, _ := strconv.Atoi(p[2])
					st.fr.WriteDataPadded(u(p[0]), p[3] == "1", make([]byte, n), make([]byte, pad))
				}
			case "R":
				st.fr.WriteRSTStream(u(p[0]), ErrCodeCancel)
			case "r", "x", "c":
				id := u(p[0])
				mu.Lock()
				ch, b, done := cmds[id], bodies[id], returned[id]
				mu.Unlock()
				if ch == nil || done {
					if kind == "r" {
						pre = "bW"
					}
					break
				}
				if kind == "c" {
					c := verifRxCmd{read: -1, res: make(chan string, 1)}
					ch <- c
					<-c.res
					break
				}
				if kind == "x" {
					c := verifRxCmd{read: 0, res: make(chan string, 1)}
					ch <- c
					<-c.res
					close(ch)
					mu.Lock()
					returned[id] = true
					mu.Unlock()
					break
				}
				// never call a Read that would block: the tester could not drive the handler any more
				if b == nil || b.pipe == nil || (b.pipe.Len() == 0 && b.pipe.Err() == nil) {
					pre = "bW"
					break
				}
				n, _ := strconv.Atoi(p[1])
				c := verifRxCmd{read: n, res: make(chan string, 1)}
				ch <- c
				pre = <-c.res
			}
			res = append(res, collect(pre))
		}
		// let the handlers go
		mu.Lock()
		for id, ch := range cmds {
			if !returned[id] {
				close(ch)
			}
		}
		mu.Unlock()
		return strings.Join(res, "/")
	}
}
