//go:build verif

package hpack

// Verification hook (added through `go build -overlay`): read-only views of the dynamic tables.

type VerifTable struct {
	Ents           []HeaderField
	Size, MaxSize  uint32
	AllowedMaxSize uint32
}

func (d *Decoder) VerifTable() VerifTable {
	return VerifTable{append([]HeaderField{}, d.dynTab.table.ents...), d.dynTab.size, d.dynTab.maxSize, d.dynTab.allowedMaxSize}
}

func (e *Encoder) VerifTable() VerifTable {
	return VerifTable{append([]HeaderField{}, e.dynTab.table.ents...), e.dynTab.size, e.dynTab.maxSize, e.dynTab.allowedMaxSize}
}

func VerifReadVarInt(n byte, p []byte) (uint64, int, string) {
	i, rest, err := readVarInt(n, p)
	switch {
	case err == nil:
		return i, len(p) - len(rest), "ok"
	case err == errNeedMore:
		return 0, 0, "needMore"
	}
	return 0, 0, "overflow"
}

func VerifAppendVarInt(n byte, i uint64) []byte { return appendVarInt(nil, n, i) }
