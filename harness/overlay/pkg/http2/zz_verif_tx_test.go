//go:build verif

package http2

import (
	"fmt"
	"io"
	"net/http"
	"strconv"
	"strings"
	"sync"
	"testing"
)

// h2tx greet=<id.val;...> ev=<tok,...>: the client transport uploading ONE request body of unknown length against a
// scripted server in upstream's deterministic client-connection tester.
//   B<n> n more body bytes become available   E the body ends (io.EOF)
//   W<sid>.<inc> WINDOW_UPDATE from the server   S<id>.<val> a SETTINGS frame from the server (4 = INITIAL_WINDOW_SIZE,
//   5 = MAX_FRAME_SIZE)
// after every token the DATA frames the client wrote are reported (d<len>:<end-stream>), RST_STREAM as R:<code>,
// GOAWAY as G:<code>
func init() {
	verifExecs["h2tx"] = func(t *testing.T, a []string) string {
		var toks []string
		var greet []Setting
		u := func(s string) uint32 { v, _ := strconv.ParseUint(s, 10, 32); return uint32(v) }
		for _, x := range a {
			if strings.HasPrefix(x, "ev=") {
				toks = strings.Split(x[3:], ",")
			}
			if strings.HasPrefix(x, "greet=") && len(x) > 6 && x[6:] != "-" {
				for _, e := range strings.Split(x[6:], ";") {
					q := strings.Split(e, ".")
					greet = append(greet, Setting{ID: SettingID(u(q[0])), Val: u(q[1])})
				}
			}
		}
		// the scratch buffer comes from process-wide pools keyed by size class and may be larger than asked for when an
		// earlier upload left one behind; start every scenario with empty pools so that the chunking is a function of
		// the scenario alone
		for i := range bufPools {
			bufPools[i] = sync.Pool{}
		}
		tc := newTestClientConn(t)
		tc.greet(greet...)
		body := tc.newRequestBody()
		req, _ := http.NewRequest("POST", "https://dummy.tld/", body)
		tc.roundTrip(req)
		collect := func() string {
			tc.sync()
			var out []string
			for {
				f := tc.readFrame()
				if f == nil {
					break
				}
				switch v := f.(type) {
				case *DataFrame:
					es := 0
					if v.StreamEnded() {
						es = 1
					}
					out = append(out, fmt.Sprintf("d%d:%d", len(v.Data()), es))
				case *RSTStreamFrame:
					out = append(out, fmt.Sprintf("R:%d", uint32(v.ErrCode)))
				case *GoAwayFrame:
					out = append(out, fmt.Sprintf("G:%d", uint32(v.ErrCode)))
				}
			}
			return strings.Join(out, "+")
		}
		collect() // the request HEADERS
		var res []string
		closed := false
		for _, tk := range toks {
			kind, rest := tk[:1], ""
			if len(tk) > 2 {
				rest = tk[2:]
			}
			p := strings.Split(rest, ".")
			switch kind {
			case "B":
				if !closed {
					n, _ := strconv.Atoi(p[0])
					body.writeBytes(n)
				}
			case "E":
				if !closed {
					body.closeWithError(io.EOF)
					closed = true
				}
			case "W":
				tc.fr.AllowIllegalWrites = true
				tc.writeWindowUpdate(u(p[0]), u(p[1]))
			case "S":
				tc.writeSettings(Setting{ID: SettingID(u(p[0])), Val: u(p[1])})
			}
			res = append(res, collect())
		}
		return strings.Join(res, "/")
	}
}
