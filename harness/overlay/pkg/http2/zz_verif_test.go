//go:build verif

package http2

// Server-level correspondence harness. Added to package http2 through `go test -overlay` (nothing is
// written under /repo). It reuses upstream's deterministic tester (synctestGroup: fake time, in-memory
// conn, Wait() = quiescence) and executes operation lines from $VERIF_OPS, writing the implementation's
// canonicalised answers to $VERIF_OUT (one line per operation).

import (
	"bufio"
	"context"
	"crypto/tls"
	"fmt"
	"io"
	"log"
	"net/http"
	"os"
	"runtime"
	"sort"
	"strconv"
	"strings"
	"sync"
	"sync/atomic"
	"testing"
	"time"

	"github.com/wi1dcard/fingerproxy/pkg/metadata"
	"golang.org/x/net/http2/hpack"
)

var verifExecs = map[string]func(t *testing.T, args []string) string{}

func TestVerifExec(t *testing.T) {
	opsPath, outPath := os.Getenv("VERIF_OPS"), os.Getenv("VERIF_OUT")
	if opsPath == "" || outPath == "" {
		t.Skip("VERIF_OPS / VERIF_OUT not set")
	}
	in, err := os.Open(opsPath)
	if err != nil {
		t.Fatal(err)
	}
	defer in.Close()
	out, err := os.Create(outPath)
	if err != nil {
		t.Fatal(err)
	}
	defer out.Close()
	w := bufio.NewWriter(out)
	defer w.Flush()
	log.SetOutput(io.Discard)
	sc := bufio.NewScanner(in)
	sc.Buffer(make([]byte, 1<<20), 1<<26)
	n := 0
	for sc.Scan() {
		line := sc.Text()
		if strings.TrimSpace(line) == "" || strings.HasPrefix(line, "#") {
			continue
		}
		f := strings.Fields(line)
		res := "bad-op"
		// an operation that does not come back (an endless loop in the code under test cannot be interrupted from inside
		// the process): its answer is "hung", what was answered so far is kept, the process ends
		wd := time.AfterFunc(verifOpTimeout(), func() {
			wmu.Lock()
			w.WriteString("hung\n")
			w.Flush()
			os.Exit(3)
		})
		if e, ok := verifExecs[f[0]]; ok {
			res = runVerifOp(t, e, f[1:])
		}
		wd.Stop()
		wmu.Lock()
		w.WriteString(res)
		w.WriteByte('\n')
		wmu.Unlock()
		n++
	}
	fmt.Printf("verif-exec ops=%d\n", n)
}

var wmu sync.Mutex

func verifOpTimeout() time.Duration {
	if v, err := strconv.Atoi(os.Getenv("VERIF_OP_TIMEOUT")); err == nil && v > 0 {
		return time.Duration(v) * time.Second
	}
	return 90 * time.Second
}

// each operation runs as a subtest so that the tester's t.Cleanup (closing conn, synctest group) runs per op
func runVerifOp(t *testing.T, e func(*testing.T, []string) string, args []string) (res string) {
	res = "op-failed"
	t.Run("op", func(t *testing.T) {
		defer func() {
			if r := recover(); r != nil {
				res = fmt.Sprintf("panic:%v", r)
			}
		}()
		res = e(t, args)
	})
	return res
}

// newVerifTester is newServerTester with a metadata context (as proxyserver.serveConn passes it), so
// that the fingerprint capture code in processFrame runs.
func newVerifTester(t testing.TB, handler http.HandlerFunc, opts ...interface{}) (*serverTester, *metadata.Metadata) {
	t.Helper()
	g := newSynctest(time.Date(2000, 1, 1, 0, 0, 0, 0, time.UTC))
	t.Cleanup(func() { g.Close(t) })
	h1server := &http.Server{}
	h2server := &Server{group: g}
	tlsState := tls.ConnectionState{Version: tls.VersionTLS13, ServerName: "go.dev", CipherSuite: tls.TLS_AES_128_GCM_SHA256, NegotiatedProtocol: "h2"}
	for _, opt := range opts {
		switch v := opt.(type) {
		case func(*Server):
			v(h2server)
		case func(*http.Server):
			v(h1server)
		}
	}
	ConfigureServer(h1server, h2server)
	cli, srv := synctestNetPipe(g)
	cli.SetReadDeadline(g.Now())
	cli.autoWait = true
	st := &serverTester{t: t, cc: cli, group: g, h1server: h1server, h2server: h2server}
	st.hpackEnc = hpack.NewEncoder(&st.headerBuf)
	h1server.ErrorLog = log.New(io.Discard, "", 0)
	t.Cleanup(func() {
		st.Close()
		g.AdvanceTime(goAwayTimeout)
	})
	ctx, md := metadata.NewContext(context.Background())
	md.ConnectionState = tlsState
	connc := make(chan *serverConn)
	go func() {
		g.Join()
		h2server.serveConn(&netConnWithConnectionState{Conn: srv, state: tlsState}, &ServeConnOpts{
			Context: ctx, Handler: handler, BaseConfig: h1server,
		}, func(sc *serverConn) { connc <- sc })
	}()
	st.sc = <-connc
	st.fr = NewFramer(st.cc, st.cc)
	st.testConnFramer = testConnFramer{t: t, fr: NewFramer(st.cc, st.cc), dec: hpack.NewDecoder(initialHeaderTableSize, nil)}
	g.Wait()
	return st, md
}

func atoiU32(s string) uint32 { v, _ := strconv.ParseUint(s, 10, 32); return uint32(v) }

// header letters -> fields (shared convention with the Lean driver)
func verifFields(letters string) [][2]string {
	var out [][2]string
	for _, c := range letters {
		switch c {
		case 'm':
			out = append(out, [2]string{":method", "GET"})
		case 'M':
			out = append(out, [2]string{":method", "CONNECT"})
		case 's':
			out = append(out, [2]string{":scheme", "https"})
		case 'p':
			out = append(out, [2]string{":path", "/"})
		case 'a':
			out = append(out, [2]string{":authority", "example.test"})
		case 'x':
			out = append(out, [2]string{"x-k", "v"})
		case 'u':
			out = append(out, [2]string{"user-agent", "verif"})
		case 'c':
			out = append(out, [2]string{"cookie", "a=b"})
		case 't':
			out = append(out, [2]string{"x-trailer", "t"})
		}
	}
	return out
}

// writeVerifFrame writes one scripted client frame (token grammar in DESIGN.md / s_h2srv.go).
func writeVerifFrame(st *serverTester, tok string) {
	kind, rest := tok[:1], ""
	if len(tok) > 2 {
		rest = tok[2:]
	}
	p := strings.Split(rest, ".")
	switch kind {
	case "S":
		var ss []Setting
		if rest != "" {
			for _, e := range strings.Split(rest, ";") {
				q := strings.Split(e, ".")
				ss = append(ss, Setting{ID: SettingID(atoiU32(q[0])), Val: atoiU32(q[1])})
			}
		}
		st.fr.WriteSettings(ss...)
	case "A":
		st.fr.WriteSettingsAck()
	case "W":
		st.fr.WriteWindowUpdate(atoiU32(p[0]), atoiU32(p[1]))
	case "P":
		st.fr.WritePriority(atoiU32(p[0]), PriorityParam{StreamDep: atoiU32(p[1]), Exclusive: p[2] == "1", Weight: uint8(atoiU32(p[3]))})
	case "H", "T":
		var id uint32
		es := true
		var prio PriorityParam
		letters := "t"
		cont := 0
		id = atoiU32(p[0])
		if kind == "H" {
			es = p[1] == "1"
			if p[2] != "-" {
				q := strings.Split(p[2], "_")
				prio = PriorityParam{StreamDep: atoiU32(q[0]), Exclusive: q[1] == "1", Weight: uint8(atoiU32(q[2]))}
				if prio.IsZero() {
					// the framer only sets the PRIORITY flag for a non-zero param; the generator avoids this
				}
			}
			letters = p[3]
			cont, _ = strconv.Atoi(p[4])
		} else {
			cont, _ = strconv.Atoi(p[1])
		}
		st.headerBuf.Reset()
		for _, f := range verifFields(letters) {
			st.hpackEnc.WriteField(hpack.HeaderField{Name: f[0], Value: f[1]})
		}
		block := append([]byte{}, st.headerBuf.Bytes()...)
		// split the block into up to cont+1 non-empty fragments
		var frags [][]byte
		nfrag := cont + 1
		if nfrag > len(block) {
			nfrag = len(block)
		}
		if nfrag < 1 {
			nfrag = 1
		}
		for i := 0; i < nfrag; i++ {
			lo, hi := i*len(block)/nfrag, (i+1)*len(block)/nfrag
			frags = append(frags, block[lo:hi])
		}
		if kind == "H" && p[2] != "-" && prio.IsZero() {
			// PRIORITY flag with an all-zero priority block (dependency 0, not exclusive, weight byte 0): the framer's
			// WriteHeaders cannot say that, a client can
			var fl Flags = FlagHeadersPriority
			if es {
				fl |= FlagHeadersEndStream
			}
			if len(frags) == 1 {
				fl |= FlagHeadersEndHeaders
			}
			st.fr.WriteRawFrame(FrameHeaders, fl, id, append([]byte{0, 0, 0, 0, 0}, frags[0]...))
		} else {
			st.fr.WriteHeaders(HeadersFrameParam{StreamID: id, BlockFragment: frags[0], EndStream: es, EndHeaders: len(frags) == 1, Priority: prio})
		}
		for i := 1; i < len(frags); i++ {
			st.fr.WriteContinuation(id, i == len(frags)-1, frags[i])
		}
	case "D":
		n, _ := strconv.Atoi(p[1])
		st.fr.WriteData(atoiU32(p[0]), p[2] == "1", make([]byte, n))
	case "R":
		st.fr.WriteRSTStream(atoiU32(p[0]), ErrCode(atoiU32(p[1])))
	case "G":
		st.fr.WritePing(false, [8]byte{1, 2, 3})
	}
}

func init() {
	// h2conc max=<n> frames=<tok,...>: the client writes the whole script WITHOUT waiting for quiescence while
	// every handler marshals the fingerprint repeatedly; reports the distinct values each request observed.
	verifExecs["h2conc"] = func(t *testing.T, a []string) string {
		var max uint64
		var toks []string
		for _, x := range a {
			if strings.HasPrefix(x, "max=") {
				max, _ = strconv.ParseUint(x[4:], 10, 64)
			} else if strings.HasPrefix(x, "frames=") {
				toks = strings.Split(x[7:], ",")
			}
		}
		var mu sync.Mutex
		seen := map[uint32][]string{}
		var active, started atomic.Int64
		st, _ := newVerifTester(t, func(w http.ResponseWriter, r *http.Request) {
			active.Add(1)
			started.Add(1)
			defer active.Add(-1)
			d, ok := metadata.FromContext(r.Context())
			if !ok {
				return
			}
			id := w.(*responseWriter).rws.stream.id
			var vals []string
			last := ""
			for i := 0; i < 400; i++ {
				v := fmt.Sprintf("%x", d.HTTP2Frames.Marshal(uint(max)))
				if v != last {
					vals = append(vals, v)
					last = v
				}
				if i%8 == 0 {
					runtime.Gosched()
				}
			}
			mu.Lock()
			seen[id] = vals
			mu.Unlock()
		})
		st.writePreface()
		// the test connection otherwise waits for the whole group (handlers included) to go idle after every write
		st.cc.(*synctestNetConn).autoWait = false
		for _, tk := range toks {
			writeVerifFrame(st, tk)
		}
		// let the handlers run against the serve loop undisturbed (the group's idle detection stops the world on
		// every poll); only then wait for quiescence
		for quiet, last := 0, int64(-1); quiet < 3; {
			time.Sleep(2 * time.Millisecond)
			if n := started.Load(); active.Load() == 0 && n == last {
				quiet++
			} else {
				quiet, last = 0, n
			}
		}
		st.sync()
		mu.Lock()
		defer mu.Unlock()
		var ids []int
		for id := range seen {
			ids = append(ids, int(id))
		}
		sort.Ints(ids)
		var parts []string
		for _, id := range ids {
			parts = append(parts, fmt.Sprintf("R%d=%s", id, strings.Join(seen[uint32(id)], ",")))
		}
		return strings.Join(parts, " ")
	}
	// h2fp max=<n> frames=<tok,tok,...>: scripted accepted frame sequence; every handler reports
	// Marshal(max) as its request sees it; finally the connection's record is marshalled once more.
	verifExecs["h2fpm"] = func(t *testing.T, a []string) string { return verifExecs["h2fp"](t, a) }
	verifExecs["h2fp"] = func(t *testing.T, a []string) string {
		var max uint64
		var toks []string
		for _, x := range a {
			if strings.HasPrefix(x, "max=") {
				max, _ = strconv.ParseUint(x[4:], 10, 64)
			} else if strings.HasPrefix(x, "frames=") {
				toks = strings.Split(x[7:], ",")
			}
		}
		var mu sync.Mutex
		var seen []string
		st, md := newVerifTester(t, func(w http.ResponseWriter, r *http.Request) {
			d, ok := metadata.FromContext(r.Context())
			v := "nometa"
			if ok {
				v = fmt.Sprintf("%x", d.HTTP2Frames.Marshal(uint(max)))
			}
			mu.Lock()
			seen = append(seen, v)
			mu.Unlock()
			io.Copy(io.Discard, r.Body)
		})
		st.writePreface()
		for _, tk := range toks {
			writeVerifFrame(st, tk)
			st.sync()
		}
		st.sync()
		mu.Lock()
		defer mu.Unlock()
		seen = append(seen, "final:"+fmt.Sprintf("%x", md.HTTP2Frames.Marshal(uint(max))))
		return strings.Join(seen, " ")
	}
}
