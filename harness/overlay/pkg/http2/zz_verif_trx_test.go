//go:build verif

package http2

import (
	"fmt"
	"net/http"
	"strconv"
	"strings"
	"testing"
)

// h2trx ev=<tok,...>: the client transport RECEIVING response bodies from a scripted server (upstream's deterministic
// client-connection tester), with the application reading part of a body, all of it, or closing it early.
//   Q              a new GET request (requests are numbered 0, 1, ... in the order of their Q)
//   H<k>           the server answers request k with a 200 HEADERS frame (no END_STREAM)
//   D<k>.<n>.<pad|->.<es>  the server sends n body bytes on request k (optionally padded), END_STREAM or not
//   r<k>.<n>       the application reads up to n bytes of body k (only when that cannot block)
//   c<k>           the application closes body k
// The answer is the connection-level receive ledger at the end of the schedule, when every body has been closed:
// every flow-controlled octet the server sent must have been returned as connection credit, up to the 4 KiB the
// transport may batch ("no receive-window credit is permanently lost").
func init() {
	verifExecs["h2trx"] = func(t *testing.T, a []string) string {
		var toks []string
		for _, x := range a {
			if strings.HasPrefix(x, "ev=") {
				toks = strings.Split(x[3:], ",")
			}
		}
		tc := newTestClientConn(t)
		tc.greet()
		var rts []*testRoundTrip
		hdrSent := map[int]bool{}
		ended := map[int]bool{}
		closed := map[int]bool{}
		sent, returned := 0, 0
		collect := func() {
			tc.sync()
			for {
				f := tc.readFrame()
				if f == nil {
					break
				}
				if wu, ok := f.(*WindowUpdateFrame); ok && wu.StreamID == 0 {
					returned += int(wu.Increment)
				}
			}
		}
		collect()
		num := func(s string) int { n, _ := strconv.Atoi(s); return n }
		for _, tk := range toks {
			kind, rest := tk[:1], ""
			if len(tk) > 1 {
				rest = tk[1:]
			}
			p := strings.Split(rest, ".")
			k := 0
			if rest != "" {
				k = num(p[0])
			}
			switch kind {
			case "Q":
				req, _ := http.NewRequest("GET", "https://dummy.tld/", nil)
				rts = append(rts, tc.roundTrip(req))
			case "H":
				if k < len(rts) && !hdrSent[k] && !ended[k] && rts[k].id.Load() != 0 {
					tc.writeHeaders(HeadersFrameParam{StreamID: rts[k].streamID(), EndHeaders: true, EndStream: false,
						BlockFragment: tc.makeHeaderBlockFragment(":status", "200")})
					hdrSent[k] = true
				}
			case "D":
				if k < len(rts) && hdrSent[k] && !ended[k] {
					n, es := num(p[1]), p[3] == "1"
					if p[2] == "-" {
						tc.writeData(rts[k].streamID(), es, make([]byte, n))
						sent += n
					} else {
						pad := num(p[2])
						tc.writeDataPadded(rts[k].streamID(), es, make([]byte, n), make([]byte, pad))
						sent += n + pad + 1
					}
					ended[k] = es
				}
			case "r", "c":
				if k >= len(rts) || !hdrSent[k] || closed[k] {
					break
				}
				tc.sync()
				if !rts[k].done() {
					break
				}
				resp, err := rts[k].result()
				if err != nil || resp == nil {
					break
				}
				if kind == "c" {
					resp.Body.Close()
					closed[k] = true
					break
				}
				b, ok := resp.Body.(transportResponseBody)
				if !ok || (b.cs.bufPipe.Len() == 0 && b.cs.bufPipe.Err() == nil) {
					break // the read would block
				}
				resp.Body.Read(make([]byte, num(p[1])))
			}
			collect()
		}
		// the application is done with every response
		for k := range rts {
			tc.sync()
			if hdrSent[k] && !closed[k] && rts[k].done() {
				if resp, err := rts[k].result(); err == nil && resp != nil {
					resp.Body.Close()
				}
			}
			collect()
		}
		collect()
		if sent-returned >= 4096 {
			return fmt.Sprintf("ledger=leak:%d sent=%d returned=%d", sent-returned, sent, returned)
		}
		return "ledger=ok"
	}
}
