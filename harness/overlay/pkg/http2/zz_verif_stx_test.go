//go:build verif

package http2

import (
	"fmt"
	"net/http"
	"sort"
	"strconv"
	"strings"
	"testing"

	"golang.org/x/net/http2/hpack"
)

// h2stx body=<n> ev=<tok,...>: the SERVER's sending side under flow control, observed by the peer.
//
//	H<sid>.<es>   a request on stream sid (es=1: ended by HEADERS, the stream is half-closed (remote) while the response
//	              is sent; es=0: request body still open); the handler writes n bytes and returns
//	S<val>        SETTINGS{INITIAL_WINDOW_SIZE: val}     W<sid>.<inc>  WINDOW_UPDATE (sid 0: connection)
//	E<sid>        the client ends its request body (empty DATA with END_STREAM)
//
// answer: after every event (at quiescence) the cumulative number of DATA bytes the peer has received on each stream,
// with 'e' once END_STREAM arrived; any GOAWAY.
func init() {
	verifExecs["h2stx"] = func(t *testing.T, a []string) string {
		body := 0
		var toks []string
		for _, x := range a {
			if strings.HasPrefix(x, "body=") {
				body, _ = strconv.Atoi(x[5:])
			} else if strings.HasPrefix(x, "ev=") {
				toks = strings.Split(x[3:], ",")
			}
		}
		st, _ := newVerifTester(t, func(w http.ResponseWriter, r *http.Request) {
			w.Write(make([]byte, body))
		})
		st.writePreface()
		got := map[uint32]int{}
		ended := map[uint32]bool{}
		goaway := ""
		collect := func() string {
			st.sync()
			for {
				f := st.readFrame()
				if f == nil {
					break
				}
				switch v := f.(type) {
				case *DataFrame:
					got[v.StreamID] += len(v.Data())
					if v.StreamEnded() {
						ended[v.StreamID] = true
					}
				case *HeadersFrame:
					if v.StreamEnded() {
						ended[v.StreamID] = true
					}
				case *GoAwayFrame:
					goaway = fmt.Sprintf("G%d:%d", v.LastStreamID, uint32(v.ErrCode))
				}
			}
			var ids []int
			for id := range got {
				ids = append(ids, int(id))
			}
			for id := range ended {
				if _, ok := got[id]; !ok {
					ids = append(ids, int(id))
				}
			}
			sort.Ints(ids)
			var parts []string
			for _, id := range ids {
				s := fmt.Sprintf("%d=%d", id, got[uint32(id)])
				if ended[uint32(id)] {
					s += "e"
				}
				parts = append(parts, s)
			}
			if goaway != "" {
				parts = append(parts, goaway)
			}
			if len(parts) == 0 {
				return "-"
			}
			return strings.Join(parts, ";")
		}
		collect()
		st.fr.WriteSettingsAck()
		collect()
		u := func(s string) uint32 { v, _ := strconv.ParseUint(s, 10, 32); return uint32(v) }
		var res []string
		for _, tk := range toks {
			p := strings.Split(tk[1:], ".")
			switch tk[0] {
			case 'H':
				st.headerBuf.Reset()
				enc := func(k, v string) { st.hpackEnc.WriteField(hpack.HeaderField{Name: k, Value: v}) }
				method := "GET"
				if p[1] != "1" {
					method = "POST"
				}
				enc(":method", method)
				enc(":scheme", "https")
				enc(":path", "/")
				enc(":authority", "x.test")
				st.fr.WriteHeaders(HeadersFrameParam{StreamID: u(p[0]), BlockFragment: st.headerBuf.Bytes(), EndStream: p[1] == "1", EndHeaders: true})
			case 'S':
				st.fr.WriteSettings(Setting{ID: SettingInitialWindowSize, Val: u(p[0])})
			case 'W':
				st.fr.WriteWindowUpdate(u(p[0]), u(p[1]))
			case 'E':
				st.fr.WriteData(u(p[0]), true, nil)
			}
			res = append(res, collect())
		}
		return strings.Join(res, "/")
	}
}
