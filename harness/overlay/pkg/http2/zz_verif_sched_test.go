//go:build verif

package http2

import (
	"fmt"
	"sort"
	"strconv"
	"strings"
	"testing"
)

// verifFrame is a non-DATA frame carrying an identity
type verifFrame struct{ uid int }

func (verifFrame) writeFrame(writeContext) error { return nil }
func (verifFrame) staysWithinBuffer(int) bool    { return true }

// sched kind=<rr|random|prio[:cfg]> ops=<op;op;...>
//   o<sid> open  c<sid> close  a<sid>.<dep>.<weight>.<excl> adjust
//   pd<sid>.<len>.<es> push DATA   ph<sid> push non-DATA on a stream   pc push control (stream nil)
//   pr<sid> push a control frame that names a stream (StreamError)
//   w<sid>.<n> add n to the stream's send window   W<n> add to the connection window   m<n> max frame size   x Pop
// answer: one token per operation that has an observable result (x, and panics)
func init() {
	verifExecs["sched"] = func(t *testing.T, a []string) string {
		kind, opsS := "rr", ""
		for _, x := range a {
			if strings.HasPrefix(x, "kind=") {
				kind = x[5:]
			} else if strings.HasPrefix(x, "ops=") {
				opsS = x[4:]
			}
		}
		var ws WriteScheduler
		switch {
		case kind == "rr":
			ws = newRoundRobinWriteScheduler()
		case kind == "random":
			ws = NewRandomWriteScheduler()
		default:
			cfg := &PriorityWriteSchedulerConfig{MaxClosedNodesInTree: 4, MaxIdleNodesInTree: 4, ThrottleOutOfOrderWrites: false}
			p := strings.Split(kind, ":")
			if len(p) >= 4 {
				cfg.MaxClosedNodesInTree, _ = strconv.Atoi(p[1])
				cfg.MaxIdleNodesInTree, _ = strconv.Atoi(p[2])
				cfg.ThrottleOutOfOrderWrites = p[3] == "1"
			}
			ws = NewPriorityWriteScheduler(cfg)
			if len(p) == 5 {
				// the state after many consecutive out-of-order Pops: the throttle limit has grown to this value
				v, _ := strconv.Atoi(p[4])
				ws.(*priorityWriteScheduler).writeThrottleLimit = int32(v)
			}
		}
		sc := &serverConn{maxFrameSize: 16384}
		var connFlow outflow
		connFlow.add(65535)
		streams := map[uint32]*stream{}
		get := func(id uint32) *stream {
			if s, ok := streams[id]; ok {
				return s
			}
			s := &stream{id: id, sc: sc}
			s.flow.conn = &connFlow
			streams[id] = s
			return s
		}
		uid := 0
		var out []string
		u32 := func(s string) uint32 { v, _ := strconv.ParseUint(s, 10, 32); return uint32(v) }
		for _, op := range strings.Split(opsS, ";") {
			if op == "" {
				continue
			}
			res := func() (res string) {
				defer func() {
					if r := recover(); r != nil {
						res = "panic"
					}
				}()
				switch {
				case op[0] == 'o':
					// o<id> or o<id>.<pusher> (a pushed stream: OpenStreamOptions.PusherID)
					oo := strings.Split(op[1:], ".")
					opt := OpenStreamOptions{}
					if len(oo) > 1 {
						opt.PusherID = u32(oo[1])
					}
					ws.OpenStream(u32(oo[0]), opt)
					get(u32(oo[0]))
				case op[0] == 'c':
					ws.CloseStream(u32(op[1:]))
				case op[0] == 'a':
					p := strings.Split(op[1:], ".")
					ws.AdjustStream(u32(p[0]), PriorityParam{StreamDep: u32(p[1]), Weight: uint8(u32(p[2])), Exclusive: p[3] == "1"})
				case strings.HasPrefix(op, "pd"):
					p := strings.Split(op[2:], ".")
					uid++
					st := get(u32(p[0]))
					ws.Push(FrameWriteRequest{stream: st, write: &writeData{streamID: st.id, p: make([]byte, u32(p[1])), endStream: p[2] == "1"}})
				case strings.HasPrefix(op, "ph"):
					uid++
					ws.Push(FrameWriteRequest{stream: get(u32(op[2:])), write: verifFrame{uid}})
				case strings.HasPrefix(op, "pc"):
					uid++
					ws.Push(FrameWriteRequest{write: verifFrame{uid}})
				case strings.HasPrefix(op, "pr"):
					uid++
					ws.Push(FrameWriteRequest{write: StreamError{StreamID: u32(op[2:]), Code: ErrCode(uid)}})
				case op[0] == 'w':
					p := strings.Split(op[1:], ".")
					n, _ := strconv.Atoi(p[1])
					get(u32(p[0])).flow.add(int32(n))
				case op[0] == 'W':
					n, _ := strconv.Atoi(op[1:])
					connFlow.add(int32(n))
				case op[0] == 'm':
					n, _ := strconv.Atoi(op[1:])
					sc.maxFrameSize = int32(n)
				case op[0] == 'x':
					wr, ok := ws.Pop()
					if !ok {
						return "none"
					}
					switch w := wr.write.(type) {
					case *writeData:
						return fmt.Sprintf("s%d:d%d:%v", w.streamID, len(w.p), b2i(w.endStream))
					case verifFrame:
						if wr.stream == nil {
							return fmt.Sprintf("ctl:%d", w.uid)
						}
						return fmt.Sprintf("s%d:f%d", wr.stream.id, w.uid)
					case StreamError:
						return fmt.Sprintf("ctl:%d", int(w.Code))
					}
					return "unknown"
				}
				return ""
			}()
			if res != "" {
				out = append(out, res)
			}
		}
		// final windows: the scheduler must have taken exactly the bytes it released
		out = append(out, fmt.Sprintf("conn=%d", connFlow.n))
		if pw, ok := ws.(*priorityWriteScheduler); ok {
			out = append(out, verifPrioDump(pw))
		}
		return strings.Join(out, " ")
	}
}

func init() {
	verifExecs["schedtrace"] = func(t *testing.T, a []string) string { return verifExecs["sched"](t, a) }
}

// verifPrioDump: the priority tree as the scheduler holds it (map, parent pointers, sibling order, counters)
func verifPrioDump(ws *priorityWriteScheduler) string {
	ids := []int{}
	for id := range ws.nodes {
		ids = append(ids, int(id))
	}
	sort.Ints(ids)
	var parts []string
	for _, id := range ids {
		n := ws.nodes[uint32(id)]
		par := "-"
		if n.parent != nil {
			par = strconv.Itoa(int(n.parent.id))
		}
		var kids []string
		for k := n.kids; k != nil; k = k.next {
			kids = append(kids, strconv.Itoa(int(k.id)))
		}
		st := map[priorityNodeState]string{priorityNodeOpen: "o", priorityNodeClosed: "c", priorityNodeIdle: "i"}[n.state]
		parts = append(parts, fmt.Sprintf("%d/%s/%d/%s/%d/%d/%d/%s", id, par, n.weight, st, n.bytes, n.subtreeBytes, len(n.q.s), strings.Join(kids, "+")))
	}
	lst := func(l []*priorityNode) string {
		var x []string
		for _, n := range l {
			x = append(x, strconv.Itoa(int(n.id)))
		}
		return strings.Join(x, "+")
	}
	return fmt.Sprintf("tree=%s max=%d closed=%s idle=%s thr=%d", strings.Join(parts, ","), ws.maxID, lst(ws.closedNodes), lst(ws.idleNodes), ws.writeThrottleLimit)
}

func b2i(b bool) int {
	if b {
		return 1
	}
	return 0
}
