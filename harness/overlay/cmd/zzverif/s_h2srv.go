//go:build verif

package main

import (
	"fmt"
	"math"
	"strings"
)

// Generators for the server-level streams. Their operations are executed by the pkg/http2 test
// harness (overlay zz_verif_test.go, TestVerifExec), not in this process.
//
// frame tokens: S:<id>.<val>;..  A  W:<stream>.<inc>  P:<stream>.<dep>.<excl>.<weight>
//   H:<stream>.<endStream>.<dep_excl_weight|->.<letters>.<nContinuation>  T:<stream>.<nContinuation>
//   D:<stream>.<len>.<endStream>  R:<stream>.<code>  G

type h2gen struct {
	r      *rng
	toks   []string
	nextID uint32
	open   []uint32 // request streams whose client side is still open
	acked  bool
	nP     int
}

func (g *h2gen) settings() string {
	n := []int{0, 1, 3, 6}[g.r.intn(4)]
	used := map[int]bool{}
	var ss []string
	for i := 0; i < n; i++ {
		id := []int{1, 2, 3, 4, 5, 6, 9, 10, 0x0a0a, 0xffff, 0}[g.r.intn(11)]
		if used[id] {
			continue
		}
		used[id] = true
		var v uint32
		switch id {
		case 1:
			v = []uint32{0, 4096, 65536}[g.r.intn(3)]
		case 2:
			v = uint32(g.r.intn(2))
		case 3:
			v = []uint32{0, 1, 100, 1000, math.MaxUint32}[g.r.intn(5)]
			if v < 100 {
				v = 100 // informational for the server; keep it harmless for the script
			}
		case 4:
			v = []uint32{65535, 131072, 6291456, 1 << 20}[g.r.intn(4)]
		case 5:
			v = []uint32{16384, 16385, 1 << 20, 16777215}[g.r.intn(4)]
		default:
			v = uint32(g.r.u64())
		}
		ss = append(ss, fmt.Sprintf("%d.%d", id, v))
	}
	return "S:" + strings.Join(ss, ";")
}

func (g *h2gen) prio(self uint32) string {
	dep := uint32(g.r.intn(12))
	if g.r.chance(1, 4) {
		dep = uint32(g.r.u64() % (1 << 31))
	}
	if dep == self {
		dep = self + 2
	}
	w := []int{0, 1, 15, 109, 200, 255}[g.r.intn(6)]
	ex := g.r.intn(2)
	if dep == 0 && w == 0 && ex == 0 && g.r.chance(1, 2) {
		w = 1 // (the all-zero block is kept half of the time: the harness writes it as a raw frame)
	}
	return fmt.Sprintf("%d_%d_%d", dep, ex, w)
}

func (g *h2gen) letters() string {
	ps := []byte("msp")
	if g.r.chance(1, 2) {
		ps = append(ps, 'a')
	}
	p := g.r.perm(len(ps))
	out := make([]byte, 0, 8)
	for _, i := range p {
		out = append(out, ps[i])
	}
	if g.r.chance(1, 12) {
		out = []byte("Ma")
		if g.r.chance(1, 2) {
			out = []byte("aM")
		}
	}
	for i, n := 0, g.r.intn(4); i < n; i++ {
		out = append(out, "xuc"[g.r.intn(3)])
	}
	return string(out)
}

func (g *h2gen) step() {
	r := g.r
	switch r.intn(14) {
	case 0:
		g.toks = append(g.toks, g.settings())
	case 1:
		if !g.acked {
			g.acked = true
			g.toks = append(g.toks, "A")
		}
	case 2, 3:
		sid := uint32(0)
		if g.nextID > 1 && r.chance(1, 2) {
			sid = uint32(1 + 2*r.intn(int(g.nextID/2)))
		}
		inc := []uint32{1, 5, 9, 10, 99, 100, 65535, 15663105}[r.intn(8)]
		g.toks = append(g.toks, fmt.Sprintf("W:%d.%d", sid, inc))
	case 4, 5:
		sid := uint32(1 + r.intn(40))
		if r.chance(1, 5) {
			sid = uint32(1 + r.u64()%(1<<31-1))
		}
		p := strings.Split(g.prio(sid), "_")
		g.toks = append(g.toks, fmt.Sprintf("P:%d.%s.%s.%s", sid, p[0], p[1], p[2]))
		g.nP++
	case 6, 7, 8, 9:
		id := g.nextID
		g.nextID += 2
		es := r.intn(2)
		pr := "-"
		if r.chance(1, 2) {
			pr = g.prio(id)
			g.nP++
		}
		g.toks = append(g.toks, fmt.Sprintf("H:%d.%d.%s.%s.%d", id, es, pr, g.letters(), []int{0, 0, 1, 2, 3}[r.intn(5)]))
		if es == 0 {
			g.open = append(g.open, id)
		}
	case 10:
		if len(g.open) > 0 {
			i := r.intn(len(g.open))
			g.toks = append(g.toks, fmt.Sprintf("T:%d.%d", g.open[i], r.intn(3)))
			g.open = append(g.open[:i], g.open[i+1:]...)
		}
	case 11:
		if len(g.open) > 0 {
			i := r.intn(len(g.open))
			es := r.intn(2)
			g.toks = append(g.toks, fmt.Sprintf("D:%d.%d.%d", g.open[i], r.intn(200), es))
			if es == 1 {
				g.open = append(g.open[:i], g.open[i+1:]...)
			}
		}
	case 12:
		if len(g.open) > 0 {
			i := r.intn(len(g.open))
			g.toks = append(g.toks, fmt.Sprintf("R:%d.%d", g.open[i], []int{0, 8, 5}[r.intn(3)]))
			g.open = append(g.open[:i], g.open[i+1:]...)
		}
	default:
		g.toks = append(g.toks, "G")
	}
}

func init() {
	register("h2conc", "C07: handlers marshal the fingerprint while later frames of the same connection keep arriving (run with -race)", func(c *ctx) {
		c.deferred = true
		for i := 0; i < c.count; i++ {
			r := c.rng.fork()
			g := &h2gen{r: r, nextID: 1}
			g.toks = append(g.toks, g.settings())
			// dense in captured frames: requests interleaved with SETTINGS / WINDOW_UPDATE / PRIORITY / HEADERS+priority
			for j, n := 0, []int{8, 20, 40, 80}[r.intn(4)]; j < n; j++ {
				switch r.intn(10) {
				case 0, 1, 2:
					id := g.nextID
					g.nextID += 2
					pr := "-"
					if r.chance(2, 3) {
						pr = g.prio(id)
						g.nP++
					}
					g.toks = append(g.toks, fmt.Sprintf("H:%d.1.%s.%s.%d", id, pr, g.letters(), r.intn(3)))
				case 3:
					g.toks = append(g.toks, g.settings())
				case 4, 5:
					g.toks = append(g.toks, fmt.Sprintf("W:0.%d", r.rangeI(1, 99999)))
				default:
					sid := uint32(1 + r.intn(60))
					p := strings.Split(g.prio(sid), "_")
					g.toks = append(g.toks, fmt.Sprintf("P:%d.%s.%s.%s", sid, p[0], p[1], p[2]))
					g.nP++
				}
			}
			if r.chance(1, 4) {
				// a client that keeps re-sending SETTINGS of one size with changing values between its requests: every
				// request's handler is marshalling while the next SETTINGS frame is being captured
				np := []int{1, 6, 40, 100}[r.intn(4)]
				for k, rounds := 0, 10+r.intn(20); k < rounds; k++ {
					ss := make([]string, np)
					for q := range ss {
						ss[q] = fmt.Sprintf("%d.%d", 0x1000+q, 7000+k)
					}
					id := g.nextID
					g.nextID += 2
					g.toks = append(g.toks, "S:"+strings.Join(ss, ";"), fmt.Sprintf("H:%d.1.-.%s.0", id, g.letters()))
				}
				c.tag("settings-storm")
			}
			c.tag("frames:" + bucket(len(g.toks)))
			c.tag("requests:" + bucket(int(g.nextID/2)))
			c.op(fmt.Sprintf("h2conc max=%d frames=%s", []uint64{0, 1, 3, 10000, math.MaxUint64}[r.intn(5)], strings.Join(g.toks, ",")))
		}
	})
	register("h2fp", "server-level: accepted frame scripts against the real serverConn; handlers report Marshal(max)", func(c *ctx) {
		c.deferred = true
		// HEADERS whose PRIORITY flag is set over an all-zero priority block (dependency 0, not exclusive, weight byte 0),
		// alone and between other priority-carrying frames
		for _, fr := range []string{"S:,H:1.1.0_0_0.mspa.0", "S:,H:1.1.0_0_0.msp.0,P:3.0.0.0,H:3.1.0_0_0.mspa.1,H:5.1.3_1_200.mspa.0,H:7.1.-.mspa.0"} {
			for _, max := range []string{"10000", "0", "1", "18446744073709551615"} {
				c.tag("zero-priority-block")
				c.op("h2fp max=" + max + " frames=" + fr)
				c.op("h2fpm max=" + max + " frames=" + fr)
			}
		}
		for i := 0; i < c.count; i++ {
			r := c.rng.fork()
			g := &h2gen{r: r, nextID: 1}
			g.toks = append(g.toks, g.settings())
			for j, n := 0, []int{2, 6, 15, 40, 90}[r.intn(5)]; j < n; j++ {
				g.step()
			}
			var max uint64
			switch r.intn(7) {
			case 0:
				max = 0
			case 1:
				max = 1
			case 2:
				max = uint64(g.nP)
			case 3:
				if g.nP > 0 {
					max = uint64(g.nP - 1)
				}
			case 4:
				max = uint64(g.nP + 1)
			case 5:
				max = math.MaxUint64
			default:
				max = 10000
			}
			c.tag("prio-frames:" + bucket(g.nP))
			c.tag("frames:" + bucket(len(g.toks)))
			c.tag("requests:" + bucket(int(g.nextID/2)))
			line := fmt.Sprintf("max=%d frames=%s", max, strings.Join(g.toks, ","))
			c.op("h2fp " + line)  // oracle: driver answers with the SPECIFICATION fpSpec of the delivered prefix
			c.op("h2fpm " + line) // correspondence: driver answers with the MODEL (capture fold + marshal)
		}
	})
}
