//go:build verif

package main

import (
	"bytes"
	"crypto/tls"
	"fmt"
	"io"
	"net"
	"net/http"
	"strconv"
	"strings"
	"time"

	"github.com/wi1dcard/fingerproxy/pkg/http2"
	"golang.org/x/net/http2/hpack"
)

// rxblocked up=<KiB> frame=<bytes>: the connection-level receive ledger while the server's WRITER is blocked.
//
// The client asks for a large response and stops reading, so the proxy's frame writer blocks on the socket. It then
// uploads on another stream more than that request declared (stream error: the server QUEUES a RST_STREAM which cannot be
// written yet) and keeps sending DATA on that stream. Every DATA byte counts against the connection window whatever
// becomes of the stream, so once the client reads again it must get that credit back (RFC 7540 6.9: bounded un-returned
// credit).
func init() {
	registerOp("rxblocked", func(a []string) string {
		kv := map[string]string{}
		for _, t := range a {
			if i := strings.IndexByte(t, '='); i > 0 {
				kv[t[:i]] = t[i+1:]
			}
		}
		upKiB, _ := strconv.Atoi(kv["up"])
		frame, _ := strconv.Atoi(kv["frame"])
		if frame <= 0 || frame > 16384 {
			frame = 16384
		}
		o := defaultE2EOpts()
		o.EnableProbe = false
		env := newE2EEnv(o)
		defer env.close()
		env.backend.mu.Lock()
		env.backend.respond = func(tag string, w http.ResponseWriter, r *http.Request, body []byte) {
			if tag == "big" {
				w.WriteHeader(200)
				chunk := make([]byte, 32<<10)
				for i := 0; i < 512; i++ { // 16 MiB
					if _, err := w.Write(chunk); err != nil {
						return
					}
				}
				return
			}
			w.WriteHeader(200)
		}
		env.backend.mu.Unlock()
		raw, err := (&net.Dialer{Timeout: 3 * time.Second}).Dial("tcp", env.addr)
		if err != nil {
			return "fail=dial"
		}
		defer raw.Close()
		tc := tls.Client(raw, &tls.Config{InsecureSkipVerify: true, NextProtos: []string{"h2"}})
		tc.SetDeadline(time.Now().Add(15 * time.Second))
		if err := tc.Handshake(); err != nil {
			return "fail=handshake"
		}
		io.WriteString(tc, http2.ClientPreface)
		fr := http2.NewFramer(tc, tc)
		fr.WriteSettings(http2.Setting{ID: http2.SettingInitialWindowSize, Val: 1<<31 - 1})
		fr.WriteWindowUpdate(0, 1<<31-1-65535)
		// the server's greeting (SETTINGS and the WINDOW_UPDATE that raises the connection window to its configured size) is
		// not credit returned for anything
		tc.SetReadDeadline(time.Now().Add(300 * time.Millisecond))
		for {
			f, err := fr.ReadFrame()
			if err != nil {
				break
			}
			if v, ok := f.(*http2.SettingsFrame); ok && !v.IsAck() {
				fr.WriteSettingsAck()
			}
		}
		tc.SetReadDeadline(time.Time{})
		var hb bytes.Buffer
		enc := hpack.NewEncoder(&hb)
		hdr := func(fs [][2]string) []byte {
			hb.Reset()
			for _, f := range fs {
				enc.WriteField(hpack.HeaderField{Name: f[0], Value: f[1]})
			}
			return append([]byte{}, hb.Bytes()...)
		}
		fr.WriteHeaders(http2.HeadersFrameParam{StreamID: 1, EndHeaders: true, EndStream: true,
			BlockFragment: hdr([][2]string{{":method", "GET"}, {":scheme", "https"}, {":path", "/big"}, {":authority", "example.test"}, {"x-verif-tag", "big"}})})
		time.Sleep(500 * time.Millisecond) // not reading: the proxy's writer is stuck in the middle of the response
		fr.WriteHeaders(http2.HeadersFrameParam{StreamID: 3, EndHeaders: true,
			BlockFragment: hdr([][2]string{{":method", "POST"}, {":scheme", "https"}, {":path", "/up"}, {":authority", "example.test"}, {"x-verif-tag", "up"}, {"content-length", "10"}})})
		sent := 0
		data := make([]byte, frame)
		for sent < upKiB<<10 {
			if err := fr.WriteData(3, false, data); err != nil {
				break
			}
			sent += len(data)
		}
		time.Sleep(200 * time.Millisecond)
		// read again: everything the server has to say, for a while
		returned := 0
		goaway := ""
		tc.SetReadDeadline(time.Now().Add(2500 * time.Millisecond))
		for {
			f, err := fr.ReadFrame()
			if err != nil {
				break
			}
			switch v := f.(type) {
			case *http2.WindowUpdateFrame:
				if v.StreamID == 0 {
					returned += int(v.Increment)
				}
			case *http2.SettingsFrame:
				if !v.IsAck() {
					fr.WriteSettingsAck()
				}
			case *http2.GoAwayFrame:
				goaway = fmt.Sprintf(" goaway=%d", uint32(v.ErrCode))
			}
		}
		if sent-returned < 4096 {
			return fmt.Sprintf("sent=%d credit=returned%s", sent, goaway)
		}
		return fmt.Sprintf("sent=%d credit=MISSING:%d%s", sent, sent-returned, goaway)
	})

	register("rxblocked", "C12: connection-level receive credit for DATA discarded while a RST_STREAM is queued behind a blocked writer", func(c *ctx) {
		n := 2
		if c.tier == "thorough" {
			n = 8
		}
		for i := 0; i < n; i++ {
			c.tag("writer-blocked")
			c.op(fmt.Sprintf("rxblocked up=%d frame=%d", []int{600, 900, 300, 960}[i%4], []int{16384, 8000, 1000, 16384}[i%4]))
		}
	})
}
