//go:build verif

package main

import (
	"crypto/tls"
	"fmt"
	"net/http"
	"strconv"
	"strings"
	"sync"
	"time"

	fingerproxy "github.com/wi1dcard/fingerproxy"
)

type e2eCase struct {
	tagPfx  string
	delayMs int
	proto   string
	cc      clientCfg
	probe   bool
	ph      bool
	maxprio string
	reqs    []e2eReq
	frames  []string
}

func parseE2E(a []string) *e2eCase {
	c := &e2eCase{maxprio: "10000"}
	for _, t := range a {
		i := strings.IndexByte(t, '=')
		if i < 0 {
			continue
		}
		k, v := t[:i], t[i+1:]
		switch k {
		case "proto":
			c.proto = v
		case "pfx":
			c.tagPfx = v
		case "delay":
			c.delayMs, _ = strconv.Atoi(v)
		case "client":
			c.cc.kind = v
		case "alpn":
			if v != "-" {
				c.cc.alpn = strings.Split(v, ",")
			}
		case "sni":
			if v != "-" {
				c.cc.sni = v
			}
		case "peer":
			c.cc.peer = v
		case "seg":
			c.cc.seg, _ = strconv.Atoi(v)
		case "frag":
			c.cc.frag, _ = strconv.Atoi(v)
		case "ccs":
			c.cc.ccs = v == "1"
		case "rnd":
			n, _ := strconv.ParseUint(v, 16, 8)
			c.cc.rnd, c.cc.rndSet = byte(n), true
		case "tlsmax":
			n, _ := strconv.ParseUint(v, 16, 16)
			c.cc.maxVer = uint16(n)
		case "ciphers":
			if v != "-" {
				c.cc.ciphers = toU16s(unhx(v))
			}
		case "curves":
			if v != "-" {
				for _, x := range toU16s(unhx(v)) {
					c.cc.curves = append(c.cc.curves, tls.CurveID(x))
				}
			}
		case "probe":
			c.probe = v == "1"
		case "ph":
			c.ph = v == "1"
		case "maxprio":
			c.maxprio = v
		case "frames":
			if v != "-" {
				c.frames = strings.Split(v, ",")
			}
		case "reqs":
			for j, rs := range strings.Split(v, ";") {
				p := strings.Split(rs, ".")
				r := e2eReq{method: p[0], path: string(unhx(p[1])), host: string(unhx(p[2])), order: p[4], tag: fmt.Sprintf("t%d", j)}
				if p[3] != "n" {
					r.hasUA = true
					r.ua = string(unhx(p[3]))
				}
				if p[5] != "-" {
					for _, e := range strings.Split(p[5], "|") {
						q := strings.SplitN(e, ":", 2)
						r.extra = append(r.extra, [2]string{string(unhx(q[0])), string(unhx(q[1]))})
					}
				}
				c.reqs = append(c.reqs, r)
			}
		}
	}
	for j := range c.reqs {
		c.reqs[j].tag = c.tagPfx + c.reqs[j].tag
	}
	return c
}

func vals(h http.Header, k string) string {
	v := h[k]
	if len(v) == 0 {
		return "-"
	}
	return strings.Join(v, "|")
}
func hexvals(h http.Header, k string) string {
	v := h[k]
	if len(v) == 0 {
		return "-"
	}
	out := make([]string, len(v))
	for i, x := range v {
		out[i] = hx([]byte(x))
	}
	return strings.Join(out, "|")
}

func ja4Split(v string) string {
	if v == "-" || strings.Contains(v, "|") {
		return v
	}
	i := strings.LastIndexByte(v, '_')
	if i < 0 {
		return "malformed:" + hx([]byte(v))
	}
	j := strings.LastIndexByte(v[:i], '_')
	if j < 0 {
		return "malformed:" + hx([]byte(v))
	}
	return hx([]byte(v[:j])) + "/" + v[j+1:i] + "/" + v[i+1:]
}

// runE2E performs the scenario against a fresh proxy stack and reports what the backend saw.
func runE2E(c *e2eCase, env *e2eEnv) string {
	own := false
	if env == nil {
		o := defaultE2EOpts()
		o.EnableProbe, o.PreserveHost = c.probe, c.ph
		if c.maxprio == "unset" {
			o.UnsetMaxPrio = true
		} else {
			n, _ := strconv.ParseUint(c.maxprio, 10, 64)
			o.MaxH2PriorityFrames = uint(n)
		}
		env = newE2EEnv(o)
		own = true
	}
	if own {
		defer env.close()
	}
	conn, rc, neg, err := dialProxy(env, c.cc)
	if err != nil {
		return "fail=handshake:" + strings.ReplaceAll(err.Error(), " ", "_")
	}
	defer conn.Close()
	var sb strings.Builder
	fmt.Fprintf(&sb, "alpn=%s peer=%s", dash(neg), c.cc.peer)
	resps := make([]*e2eResp, len(c.reqs))
	if neg == "h2" {
		m, err := h2Exchange(conn, c.frames, c.reqs)
		if err != nil && (strings.Contains(err.Error(), "goaway:INADEQUATE_SECURITY") || tlsInadequateForH2(conn)) {
			// (the refusal may reach the client as a failed write — the server has closed already — before it reads the GOAWAY)
			// the HTTP/2 server refuses TLS parameters RFC 7540 9.2 prohibits (TLS < 1.2, black-listed TLS 1.2 cipher
			// suites) before any request: the connection is not one the server accepts
			return "fail=h2-inadequate-security"
		}
		if err != nil {
			fmt.Fprintf(&sb, " h2err=%s", strings.ReplaceAll(err.Error(), " ", "_"))
		}
		for _, tk := range c.frames {
			if tk[0] == 'H' {
				p := strings.Split(tk[2:], ".")
				id, _ := strconv.ParseUint(p[0], 10, 32)
				ri, _ := strconv.Atoi(p[3])
				resps[ri] = m[uint32(id)]
			}
		}
	} else {
		rs := h1Exchange(conn, c.reqs)
		for i := range rs {
			resps[i] = &rs[i]
		}
	}
	for i, r := range c.reqs {
		br := env.backend.get(r.tag)
		resp := resps[i]
		st := 0
		body := ""
		if resp != nil {
			st = resp.status
			body = hx(resp.body)
			if resp.err != "" {
				body = "err:" + strings.ReplaceAll(resp.err, " ", "_")
			}
		}
		if br == nil {
			fmt.Fprintf(&sb, " R%d=local;st=%d;body=%s", i, st, body)
			continue
		}
		host := hx([]byte(br.Host))
		if br.Host == env.backend.ln.Addr().String() {
			host = "backend"
		}
		fmt.Fprintf(&sb, " R%d=fwd;st=%d;ja3=%s;ja4=%s;h2=%s;xff=%s;xfp=%s;xfh=%s;host=%s;fwdh=%s", i, st,
			vals(br.Header, "X-Ja3-Fingerprint"), ja4Split(vals(br.Header, "X-Ja4-Fingerprint")), hexvals(br.Header, "X-Http2-Fingerprint"),
			hexvals(br.Header, "X-Forwarded-For"), hexvals(br.Header, "X-Forwarded-Proto"), hexvals(br.Header, "X-Forwarded-Host"), host,
			hexvals(br.Header, "Forwarded"))
	}
	rec := rc.firstRecord()
	tok := "unparsed"
	if h, ok := parseHelloRecord(rec); ok {
		tok = strings.ReplaceAll(h.Token(), " ", "~")
	}
	fmt.Fprintf(&sb, " hello=%s tok=%s", hx(rec), tok)
	return sb.String()
}

var _ = fingerproxy.VerifOptions{}

func e2eReqTok(method, path, host, ua string, hasUA bool, order string, extra [][2]string) string {
	u := "n"
	if hasUA {
		u = hx([]byte(ua))
	}
	ex := "-"
	if len(extra) > 0 {
		var parts []string
		for _, e := range extra {
			parts = append(parts, hx([]byte(e[0]))+":"+hx([]byte(e[1])))
		}
		ex = strings.Join(parts, "|")
	}
	return fmt.Sprintf("%s.%s.%s.%s.%s.%s", method, hx([]byte(path)), hx([]byte(host)), u, order, ex)
}

func init() {
	registerOp("e2e", func(a []string) string { return runE2E(parseE2E(a), nil) })

	// e2emulti probe=.. ph=.. maxprio=.. || <client scenario> || <client scenario> ...
	// all clients run CONCURRENTLY against ONE proxy stack (C06)
	registerOp("e2emulti", func(a []string) string {
		var groups [][]string
		cur := []string{}
		for _, t := range a {
			if t == "||" {
				groups = append(groups, cur)
				cur = []string{}
			} else {
				cur = append(cur, t)
			}
		}
		groups = append(groups, cur)
		head := parseE2E(groups[0])
		o := defaultE2EOpts()
		o.EnableProbe, o.PreserveHost = head.probe, head.ph
		if head.maxprio == "unset" {
			o.UnsetMaxPrio = true
		} else {
			n, _ := strconv.ParseUint(head.maxprio, 10, 64)
			o.MaxH2PriorityFrames = uint(n)
		}
		env := newE2EEnv(o)
		defer env.close()
		res := make([]string, len(groups)-1)
		var wg sync.WaitGroup
		for i, g := range groups[1:] {
			wg.Add(1)
			go func(i int, g []string) {
				defer wg.Done()
				c := parseE2E(append(append([]string{}, groups[0]...), g...))
				time.Sleep(time.Duration(c.delayMs) * time.Millisecond)
				res[i] = runE2E(c, env)
			}(i, g)
		}
		wg.Wait()
		return strings.Join(res, " || ")
	})

	register("e2emulti", "C06: N concurrent clients with pairwise different hellos and HTTP/2 preambles against ONE stack", func(c *ctx) {
		// clients whose ClientHellos carry the SAME random (a broken or deterministic RNG, a peer replaying a random it saw
		// on the wire) but differ elsewhere: nothing keyed by a field of the hello may carry data from one to the other
		for _, gap := range []int{0, 150} {
			rq := e2eReqTok("GET", "/", "example.test", "verif/1.0", true, "mspa", nil)
			mk := func(k int, proto, alpn, opts string) string {
				fr := "-"
				if proto == "h2" {
					fr = "S:,H:1.1.-.0.0,H:3.1.-.1.0"
				}
				return fmt.Sprintf("pfx=c%d- delay=%d proto=%s client=go alpn=%s sni=example.test peer=127.0.0.1 seg=0 rnd=00%s reqs=%s frames=%s",
					k, k*gap, proto, alpn, opts, rq+";"+rq, fr)
			}
			c.tag("same-client-random")
			c.op("e2emulti probe=1 ph=0 maxprio=10000 || " + strings.Join([]string{
				mk(0, "h1", "http/1.1", " tlsmax=0303 ciphers="+hx(u16s([]uint16{0xc02b, 0xc02c}))),
				mk(1, "h2", "h2", " curves="+hx(u16s([]uint16{29}))),
				mk(2, "h1", "-", " curves="+hx(u16s([]uint16{23, 24}))),
				mk(3, "h2", "h2,http/1.1", ""),
			}, " || "))
		}
		for i := 0; i < c.count; i++ {
			r := c.rng.fork()
			n := []int{2, 4, 8, 16, 32}[r.intn(5)]
			if c.tier == "thorough" && r.chance(1, 6) {
				n = 64
			}
			head := fmt.Sprintf("probe=%d ph=%d maxprio=%s", b2i(!r.chance(1, 4)), r.intn(2), []string{"10000", "0", "1", "2", "unset"}[r.intn(5)])
			parts := []string{head}
			burst := r.chance(1, 2) // all clients connect at once: handshakes and first requests overlap
			if burst {
				c.tag("burst")
			}
			for k := 0; k < n; k++ {
				sc := genE2EScenario(c, r.fork(), true)
				d := r.intn(30)
				if burst {
					d = 0
				}
				parts = append(parts, fmt.Sprintf("pfx=c%d- delay=%d %s", k, d, sc))
			}
			c.tag("clients:" + bucket(n))
			c.op("e2emulti " + strings.Join(parts, " || "))
		}
	})

	register("e2e", "end-to-end: real TLS handshakes (crypto/tls and utls presets) through the real proxy stack to a recording backend", func(c *ctx) {
		// several requests on ONE HTTP/2 connection with fingerprint-relevant frames between them (PRIORITY, HEADERS carrying
		// priority, a new SETTINGS frame, the first WINDOW_UPDATE, another pseudo-header order): every request's header is
		// the history up to ITS OWN HEADERS, not the first request's
		for _, client := range []string{"go", "utls-chrome"} {
			rq := func(order string) string { return e2eReqTok("GET", "/", "example.test", "verif/1.0", true, order, nil) }
			c.tag("h2-history-grows-between-requests")
			c.op(fmt.Sprintf("e2e proto=h2 client=%s alpn=h2 sni=example.test peer=127.0.0.1 seg=0 probe=0 ph=0 maxprio=10000 reqs=%s frames=%s",
				client, strings.Join([]string{rq("mspa"), rq("pams"), rq("samp")}, ";"),
				"S:,H:1.1.-.0.0,P:9.0.0.100,H:3.1.5_1_15.1.0,S:4.1048576;3.50,W:0.77,H:5.1.-.2.0"))
		}
		// a long-lived HTTP/2 connection that has already carried many distinct header names (per-connection caches of the
		// server are full) and only THEN carries forged fingerprint / forwarding headers, under names it has not used before
		for _, client := range []string{"go", "utls-firefox"} {
			filler := func(k int) [][2]string {
				var e [][2]string
				for j := 0; j < 36; j++ {
					e = append(e, [2]string{fmt.Sprintf("x-verif-filler-%d-%02d-abcdefghijklmnopqrstuvwxyz", k, j), "v"})
				}
				return e
			}
			forged := [][2]string{{"x-ja3-fingerprint", "forged"}, {"x-ja4-fingerprint", "forged"}, {"x-http2-fingerprint", "forged"},
				{"x-forwarded-for", "1.1.1.1"}, {"x-forwarded-host", "evil.test"}, {"x-forwarded-proto", "http"}}
			c.tag("h2-forged-headers-after-many-distinct-names")
			c.op(fmt.Sprintf("e2e proto=h2 client=%s alpn=h2 sni=example.test peer=127.0.0.1 seg=0 probe=0 ph=0 maxprio=10000 reqs=%s frames=%s",
				client, strings.Join([]string{
					e2eReqTok("GET", "/", "example.test", "verif/1.0", true, "mspa", filler(0)),
					e2eReqTok("GET", "/", "example.test", "verif/1.0", true, "mspa", filler(1)),
					e2eReqTok("POST", "/p", "example.test", "verif/1.0", true, "mspa", forged)}, ";"),
				"S:,H:1.1.-.0.0,H:3.1.-.1.0,H:5.1.-.2.0"))
		}
		// the hello and an early change_cipher_spec record in one write, on both protocols
		for _, pa := range [][2]string{{"h1", "http/1.1"}, {"h2", "h2"}} {
			fr := "-"
			if pa[0] == "h2" {
				fr = "S:,H:1.1.-.0.0"
			}
			c.tag("hello-plus-ccs-in-one-write")
			c.op(fmt.Sprintf("e2e proto=%s client=go alpn=%s sni=example.test peer=127.0.0.1 seg=0 probe=0 ph=0 maxprio=10000 ccs=1 curves=%s reqs=%s frames=%s",
				pa[0], pa[1], hx(u16s([]uint16{29})), e2eReqTok("GET", "/", "example.test", "verif/1.0", true, "mspa", nil), fr))
		}
		for i := 0; i < c.count; i++ {
			r := c.rng.fork()
			line := "e2e " + genE2EScenario(c, r, false)
			res := c.op(line)
			if strings.HasPrefix(res, "fail=") {
				c.tag("result:fail")
			} else {
				c.tag("result:ok")
			}
		}
	})
}

// genE2EScenario: one client's scenario (TLS stack and parameters, protocol, requests, HTTP/2 frame script);
// `sub`: as part of e2emulti (server options come from the head group).
func genE2EScenario(c *ctx, r *rng, sub bool) string {
	kinds := []string{"go", "go", "utls-chrome", "utls-firefox", "utls-safari", "utls-ios", "utls-random", "utls-edge", "utls-360", "utls-qq", "utls-golang", "utls-nopf", "utls-nopf"}
	{
		{
			kind := kinds[r.intn(len(kinds))]
			proto := []string{"h1", "h2"}[r.intn(2)]
			alpn := "h2,http/1.1"
			switch {
			case proto == "h1" && r.chance(1, 3) && (kind == "go" || kind == "utls-golang"):
				alpn = "-" // no ALPN extension at all (browser presets always carry one)
			case proto == "h1":
				alpn = "http/1.1"
			case r.chance(1, 3):
				alpn = "h2"
			}
			sni := []string{"example.test", "localhost", "-", "example.test"}[r.intn(4)]
			if strings.HasPrefix(kind, "utls") && r.chance(1, 6) {
				// server_name holding an IP literal (forbidden by RFC 6066, sent by real clients, accepted by crypto/tls)
				sni = []string{"192.0.2.7", "2001:db8::7", "127.0.0.1"}[r.intn(3)]
				c.tag("sni:ip-literal")
			}
			peer := []string{"127.0.0.1", "127.0.0.2", "127.0.0.77"}[r.intn(3)]
			extraOpts := ""
			if kind == "go" {
				if r.chance(1, 3) {
					extraOpts += " tlsmax=0303 ciphers=" + hx(u16s([]uint16{0xc02b, 0xc02f, 0xc02c, 0xc030, 0xcca9, 0xcca8}[:r.rangeI(2, 6)]))
				}
				if r.chance(1, 3) {
					extraOpts += " curves=" + hx(u16s([]uint16{29, 23, 24}[:r.rangeI(1, 3)]))
				}
			}
			nreq := r.rangeI(1, 3)
			var reqs []string
			var frames []string
			if proto == "h2" {
				g := &h2gen{r: r.fork(), nextID: 1}
				frames = append(frames, g.settings())
				for j, n := 0, r.intn(5); j < n; j++ {
					switch r.intn(3) {
					case 0:
						frames = append(frames, fmt.Sprintf("W:0.%d", []int{1, 9, 10, 15663105, 983041}[r.intn(5)]))
					case 1:
						sid := 3 + 2*r.intn(5)
						p := strings.Split(g.prio(uint32(sid)), "_")
						frames = append(frames, fmt.Sprintf("P:%d.%s.%s.%s", sid, p[0], p[1], p[2]))
					default:
						frames = append(frames, g.settings())
					}
				}
			}
			for j := 0; j < nreq; j++ {
				uaKind := r.intn(6)
				ua, hasUA := "verif/1.0", true
				switch uaKind {
				case 0:
					hasUA = false
				case 1:
					ua = "kube-probe/1.29"
				case 2:
					ua = "x kube-probe/1.29"
				}
				var extra [][2]string
				if r.chance(1, 2) {
					extra = append(extra, [2]string{randCase(r, "X-JA3-Fingerprint"), "forged"})
				}
				if r.chance(1, 2) {
					extra = append(extra, [2]string{randCase(r, "X-HTTP2-Fingerprint"), "forged"})
				}
				if r.chance(1, 3) {
					extra = append(extra, [2]string{randCase(r, "X-JA4-Fingerprint"), "forged"})
				}
				if r.chance(1, 3) {
					extra = append(extra, [2]string{"X-Forwarded-For", "1.1.1.1"})
				}
				if r.chance(1, 4) {
					extra = append(extra, [2]string{"X-Forwarded-Proto", "http"})
					extra = append(extra, [2]string{"Forwarded", "for=6.6.6.6"})
				}
				if proto == "h2" && kind != "utls-random" && r.chance(1, 5) { // (the randomised preset may not offer ALPN at all)
					// an HTTP/2 request may carry a `host` field besides :authority; the request is addressed to :authority
					extra = append(extra, [2]string{"host", "internal.example"})
					c.tag("h2-host-field-besides-authority")
				}
				host := []string{"example.test", "other.test:8443"}[r.intn(2)]
				order := []string{"mspa", "masp", "pams", "samp", "mhpa", "hamp"}[r.intn(6)]
				reqs = append(reqs, e2eReqTok([]string{"GET", "POST", "DELETE"}[r.intn(3)], []string{"/", "/a/b?x=1", "/p"}[r.intn(3)], host, ua, hasUA, order, extra))
				if proto == "h2" {
					pr := "-"
					if r.chance(1, 2) {
						pr = (&h2gen{r: r}).prio(uint32(1 + 2*j))
					}
					frames = append(frames, fmt.Sprintf("H:%d.1.%s.%d.%d", 1+2*j, pr, j, r.intn(3)))
					if r.chance(1, 3) {
						frames = append(frames, fmt.Sprintf("W:0.%d", r.rangeI(1, 70000)))
					}
				}
			}
			fr := "-"
			if len(frames) > 0 {
				fr = strings.Join(frames, ",")
			}
			c.tag("client:" + kind)
			c.tag("proto:" + proto)
			opts := fmt.Sprintf(" probe=%d ph=%d maxprio=%s", b2i(!r.chance(1, 4)), r.intn(2), []string{"10000", "0", "1", "2", "unset"}[r.intn(5)])
			if sub {
				opts = ""
			}
			seg := []int{0, 0, 1, 2, 3}[r.intn(5)]
			if !sub && r.chance(1, 15) {
				// the ClientHello re-framed over two TLS records (finding D9): the handshake completes, the capture is the
				// first record only
				extraOpts += fmt.Sprintf(" frag=%d", []int{1, 3, 4, 5, 38, 39, 45, 80, 150}[r.intn(9)])
				seg = 0
				c.tag("hello-over-two-records")
			}
			if kind == "go" && !strings.Contains(extraOpts, "tlsmax") && !strings.Contains(extraOpts, "frag") && r.chance(1, 2) {
				seg = 0
				// the hello and an early change_cipher_spec record arrive in one segment: whatever follows the first record
				// in the first read belongs to the TLS layer, not to the captured hello
				extraOpts += " ccs=1"
				if !strings.Contains(extraOpts, "curves=") {
					// a hello without a post-quantum key share fits, together with the record that follows it, into the
					// first read of the TLS layer
					extraOpts += " curves=" + hx(u16s([]uint16{29}))
				}
				c.tag("hello-plus-ccs-in-one-write")
			}
			return fmt.Sprintf("proto=%s client=%s alpn=%s sni=%s peer=%s seg=%d%s%s reqs=%s frames=%s", proto, kind, alpn, sni, peer,
				seg, opts, extraOpts, strings.Join(reqs, ";"), fr)
		}
	}
}
