//go:build verif

package main

import (
	"fmt"
	"strings"
)

func init() {
	register("h2rx", "C12: server receive-side flow control: DATA (padding, beyond windows, beyond Content-Length, on closed streams), handler reads, resets, early returns", func(c *ctx) {
		c.deferred = true
		for i := 0; i < c.count; i++ {
			r := c.rng.fork()
			var toks []string
			next := 1
			type st struct {
				id           int
				open, ended  bool
				ret          bool
				sent, decl   int
				hasDecl      bool
			}
			var streams []*st
			big := r.chance(1, 4) // sequences that approach / exceed the 1 MiB windows
			n := r.rangeI(4, 40)
			for j := 0; j < n; j++ {
				k := r.intn(15)
				if len(streams) == 0 || (k == 0 && len(streams) < 4) {
					s := &st{id: next, open: true}
					next += 2
					cl := "-"
					if r.chance(1, 3) {
						s.hasDecl, s.decl = true, []int{0, 10, 5000, 100000}[r.intn(4)]
						cl = fmt.Sprint(s.decl)
					}
					streams = append(streams, s)
					toks = append(toks, fmt.Sprintf("H:%d.%s", s.id, cl))
					continue
				}
				s := streams[r.intn(len(streams))]
				switch {
				case k <= 6:
					ln := []int{0, 0, 1, 100, 4095, 4096, 4097, 16384}[r.intn(8)]
					if big {
						ln = []int{16384, 16384, 16000, 65535}[r.intn(4)]
						if ln > 16384 {
							ln = 16384
						}
					}
					pad := "-"
					if r.chance(1, 3) {
						pad = fmt.Sprint([]int{0, 1, 7, 100, 255}[r.intn(5)])
					}
					es := 0
					if r.chance(1, 8) {
						es = 1
					}
					reps := 1
					if big {
						reps = r.rangeI(1, 30)
					}
					for q := 0; q < reps; q++ {
						toks = append(toks, fmt.Sprintf("D:%d.%d.%s.%d", s.id, ln, pad, es))
						if es == 1 {
							break
						}
					}
				case k <= 10:
					toks = append(toks, fmt.Sprintf("r:%d.%d", s.id, []int{1, 100, 4096, 5000, 16384, 100000, 2000000}[r.intn(7)]))
				case k == 11:
					toks = append(toks, fmt.Sprintf("R:%d", s.id))
				case k == 12:
					toks = append(toks, fmt.Sprintf("x:%d", s.id))
				case k == 14:
					// the handler gives up on the upload (Body.Close()) but keeps working on its answer; the client keeps sending
					toks = append(toks, fmt.Sprintf("c:%d", s.id))
					c.tag("handler-closes-body")
					for q, m := 0, r.intn(4); q < m; q++ {
						pad := "-"
						if r.chance(1, 2) {
							pad = fmt.Sprint([]int{0, 1, 7, 100, 255}[r.intn(5)])
						}
						toks = append(toks, fmt.Sprintf("D:%d.%d.%s.%d", s.id, []int{0, 1, 100, 4096, 16000}[r.intn(5)], pad, b2i(r.chance(1, 6))))
					}
				default:
					toks = append(toks, fmt.Sprintf("r:%d.%d", s.id, 1+r.intn(70000)))
				}
			}
			// drain: read what is left everywhere, then return
			for _, s := range streams {
				toks = append(toks, fmt.Sprintf("r:%d.2000000", s.id), fmt.Sprintf("r:%d.2000000", s.id), fmt.Sprintf("x:%d", s.id))
			}
			c.tag("tokens:" + bucket(len(toks)))
			if big {
				c.tag("big")
			}
			c.op("h2rx ev=" + strings.Join(toks, ","))
		}
	})
}
