//go:build verif

package main

import (
	"fmt"
	"strings"
)

func init() {
	register("dbuf", "C08: operation sequences on dataBuffer and pipe (request-body path of the HTTP/2 server)", func(c *ctx) {
		c.deferred = true
		// the status gates of the response path: EVERY status code 0..1100, in batches (correspondence with Model/H2Resp)
		for lo := 0; lo <= 1100; lo += 100 {
			var cs []string
			for k := lo; k < lo+100 && k <= 1100; k++ {
				cs = append(cs, fmt.Sprint(k))
			}
			c.tag("status-gates")
			c.op("h2status codes=" + strings.Join(cs, ","))
		}
		sizes := []int{0, 1, 2, 100, 1023, 1024, 1025, 2047, 2048, 2049, 4096, 4097, 8192, 8193, 16383, 16384, 16385, 20000, 40000}
		for i := 0; i < c.count; i++ {
			r := c.rng.fork()
			exp := []int{0, -1, 1, 500, 1024, 1500, 3000, 5000, 10000, 20000, 100000}[r.intn(11)]
			var ops []string
			pipeMode := r.chance(1, 2)
			closed := false
			for j, n := 0, r.rangeI(3, 30); j < n; j++ {
				sz := sizes[r.intn(len(sizes))]
				if r.chance(1, 3) {
					sz = r.intn(3000)
				}
				k := r.intn(12)
				switch {
				case k < 4:
					if pipeMode {
						ops = append(ops, fmt.Sprintf("pw%d.%d", sz, r.intn(251)))
					} else {
						ops = append(ops, fmt.Sprintf("w%d.%d", sz, r.intn(251)))
					}
				case k < 9:
					if pipeMode {
						ops = append(ops, fmt.Sprintf("pr%d", sz))
					} else {
						ops = append(ops, fmt.Sprintf("r%d", sz))
					}
				case k == 9 && pipeMode && r.chance(1, 2):
					ops = append(ops, fmt.Sprintf("pc%d", r.intn(3)))
					closed = true
				case k == 10 && pipeMode && r.chance(1, 4):
					ops = append(ops, fmt.Sprintf("pb%d", r.intn(3)))
					closed = true
				default:
					ops = append(ops, "pl")
				}
			}
			if pipeMode {
				c.tag("mode:pipe")
				if closed {
					c.tag("closed")
					// drain to the error
					ops = append(ops, "pr100000", "pr100000", "pr10")
				}
			} else {
				c.tag("mode:buffer")
			}
			c.tag("expected:" + bucket(exp))
			c.op(fmt.Sprintf("dbuf expected=%d ops=%s", exp, strings.Join(ops, ";")))
		}
	})
}
