//go:build verif

package main

import (
	"crypto/tls"
	"fmt"
	"net"
	"os"
	"path/filepath"
	"strings"
	"sync"
	"time"
)

// C14: certificate hot reload against the real CertWatcher + defaultTLSConfig, real file system, real fsnotify.
//
// cert style=<inplace|rename|symlink> steps=<step,step,...>
//   inplace: wc<k> wk<k> (truncate + full write), tc tk (truncate to empty), gc gk (garbage), pc<k> pk<k> (first half only)
//   rename:  rc<k> rk<k> (write a new file, rename it over the watched path)
//   symlink: S<k> (new ..data dir with pair k, swap, delete the old dir), M<k>.<j> (swap to cert k + key j, delete old),
//            s<k> (swap WITHOUT deleting the old dir)
// After every step the harness waits for the watcher to go quiet and handshakes; the presented pair's number is
// reported (CommonName pair-<k>), "x" if the handshake failed.

type certEnv struct {
	dir      string
	pairs    map[int][2][]byte
	gen      int
	certPath string
	keyPath  string
}

func (ce *certEnv) pair(k int) [2][]byte {
	if p, ok := ce.pairs[k]; ok {
		return p
	}
	if k >= 100 {
		// a chain variant: the SAME leaf and key as pair k%100, followed by one more certificate in the file (an
		// intermediate added or re-issued); only the rest of the chain tells the files apart
		base := ce.pair(k % 100)
		extra, _ := genCertPair(fmt.Sprintf("chain-%d", k))
		ce.pairs[k] = [2][]byte{append(append([]byte{}, base[0]...), extra...), base[1]}
		return ce.pairs[k]
	}
	c, key := genCertPair(fmt.Sprintf("pair-%d", k))
	ce.pairs[k] = [2][]byte{c, key}
	return ce.pairs[k]
}

func presented(e *e2eEnv) string {
	for try := 0; try < 3; try++ {
		d := net.Dialer{Timeout: 2 * time.Second}
		raw, err := d.Dial("tcp", e.addr)
		if err != nil {
			continue
		}
		tc := tls.Client(raw, &tls.Config{InsecureSkipVerify: true, NextProtos: []string{"http/1.1"}})
		tc.SetDeadline(time.Now().Add(2 * time.Second))
		err = tc.Handshake()
		if err != nil {
			raw.Close()
			return "x"
		}
		pcs := tc.ConnectionState().PeerCertificates
		cn := pcs[0].Subject.CommonName
		raw.Close()
		if len(pcs) > 1 {
			// what is presented is the certificate FILE: leaf and chain
			return strings.TrimPrefix(pcs[1].Subject.CommonName, "chain-")
		}
		return strings.TrimPrefix(cn, "pair-")
	}
	return "x"
}

// settle: poll the presented pair until it has been stable for 120 ms (event latency is real time)
func settle(e *e2eEnv) string {
	last, since := presented(e), time.Now()
	deadline := time.Now().Add(1500 * time.Millisecond)
	for time.Now().Before(deadline) {
		time.Sleep(25 * time.Millisecond)
		cur := presented(e)
		if cur != last {
			last, since = cur, time.Now()
		} else if time.Since(since) > 120*time.Millisecond {
			break
		}
	}
	return last
}

func init() {
	registerOp("certm", func(a []string) string { return execs["cert"](a) })
	registerOp("cert", func(a []string) string {
		style, steps := "inplace", []string{}
		// mt=old: files that are prepared and then moved into place (rename / symlink styles) carry a modification time in
		// the past (cp -p, rsync -t, tar -x, a pair restored from a backup): metadata is no part of what is served
		oldTimes := false
		// sp=<n>: how the configured paths are SPELLED (what -cert-filename / $CERT_DIR end up as): the same files named
		// with a doubled separator, a "." element, or a "x/.." detour; the file operations use the clean spelling
		spell := 0
		stamp := func(p string) {
			if oldTimes {
				t0 := time.Date(2001, 2, 3, 4, 5, 6, 0, time.UTC)
				os.Chtimes(p, t0, t0)
			}
		}
		for _, t := range a {
			if t == "mt=old" {
				oldTimes = true
			} else if strings.HasPrefix(t, "style=") {
				style = t[6:]
			} else if strings.HasPrefix(t, "sp=") {
				fmt.Sscanf(t[3:], "%d", &spell)
			} else if strings.HasPrefix(t, "steps=") {
				steps = strings.Split(t[6:], ",")
			}
		}
		ce := &certEnv{pairs: map[int][2][]byte{}}
		spelled := func(dir, base string) string {
			switch spell {
			case 1:
				return dir + "//" + base
			case 2:
				return dir + "/./" + base
			case 3:
				return dir + "/../" + filepath.Base(dir) + "/" + base
			case 4:
				return dir + "/" + base // (clean, absolute) control
			}
			return filepath.Join(dir, base)
		}
		e2eHookCertLayout = func(dir string) (string, string) {
			ce.dir = dir
			p0 := ce.pair(0)
			ce.certPath, ce.keyPath = filepath.Join(dir, "tls.crt"), filepath.Join(dir, "tls.key")
			if style == "symlink" {
				// kubernetes secret volume layout: tls.crt -> ..data/tls.crt, ..data -> ..v0
				v := filepath.Join(dir, "..v0")
				os.Mkdir(v, 0o700)
				os.WriteFile(filepath.Join(v, "tls.crt"), p0[0], 0o600)
				os.WriteFile(filepath.Join(v, "tls.key"), p0[1], 0o600)
				os.Symlink("..v0", filepath.Join(dir, "..data"))
				os.Symlink("..data/tls.crt", ce.certPath)
				os.Symlink("..data/tls.key", ce.keyPath)
			} else {
				os.WriteFile(ce.certPath, p0[0], 0o600)
				os.WriteFile(ce.keyPath, p0[1], 0o600)
			}
			return spelled(dir, "tls.crt"), spelled(dir, "tls.key")
		}
		env := newE2EEnv(defaultE2EOpts())
		e2eHookCertLayout = nil
		defer env.close()
		time.Sleep(30 * time.Millisecond) // let CertWatcher.Start add its watches
		out := []string{settle(env)}
		num := func(s string) int { n := 0; fmt.Sscanf(s, "%d", &n); return n }
		for _, st := range steps {
			pth := func(which byte) string {
				if which == 'c' {
					return ce.certPath
				}
				return ce.keyPath
			}
			idx := func(which byte) int {
				if which == 'c' {
					return 0
				}
				return 1
			}
			switch {
			case st[0] == 'w':
				os.WriteFile(pth(st[1]), ce.pair(num(st[2:]))[idx(st[1])], 0o600)
			case st[0] == 'd':
				os.Remove(pth(st[1]))
			case st[0] == 't':
				os.Truncate(pth(st[1]), 0)
			case st[0] == 'g':
				os.WriteFile(pth(st[1]), []byte("-----BEGIN GARBAGE-----\nnot a pem\n"), 0o600)
			case st[0] == 'p':
				b := ce.pair(num(st[2:]))[idx(st[1])]
				os.WriteFile(pth(st[1]), b[:len(b)/2], 0o600)
			case st[0] == 'r':
				tmp := pth(st[1]) + ".new"
				os.WriteFile(tmp, ce.pair(num(st[2:]))[idx(st[1])], 0o600)
				stamp(tmp)
				os.Rename(tmp, pth(st[1]))
			case st[0] == 'S' || st[0] == 'M' || st[0] == 's':
				kc, kk := num(st[1:]), num(st[1:])
				if st[0] == 'M' {
					parts := strings.Split(st[1:], ".")
					kc, kk = num(parts[0]), num(parts[1])
				}
				ce.gen++
				name := fmt.Sprintf("..v%d", ce.gen)
				v := filepath.Join(ce.dir, name)
				os.Mkdir(v, 0o700)
				os.WriteFile(filepath.Join(v, "tls.crt"), ce.pair(kc)[0], 0o600)
				os.WriteFile(filepath.Join(v, "tls.key"), ce.pair(kk)[1], 0o600)
				stamp(filepath.Join(v, "tls.crt"))
				stamp(filepath.Join(v, "tls.key"))
				old, _ := os.Readlink(filepath.Join(ce.dir, "..data"))
				os.Symlink(name, filepath.Join(ce.dir, "..data_tmp"))
				os.Rename(filepath.Join(ce.dir, "..data_tmp"), filepath.Join(ce.dir, "..data"))
				if st[0] != 's' {
					os.RemoveAll(filepath.Join(ce.dir, old)) // the kubernetes atomic writer removes the old directory
				}
			}
			out = append(out, settle(env))
		}
		return strings.Join(out, ",")
	})

	// certrace n=<updates>: handshakes run CONCURRENTLY with in-place updates; every handshake must succeed (a torn
	// certificate/key mixture fails the signature check) and present a pair that was on disk
	registerOp("certrace", func(a []string) string {
		n := 6
		for _, t := range a {
			if strings.HasPrefix(t, "n=") {
				fmt.Sscanf(t[2:], "%d", &n)
			}
		}
		ce := &certEnv{pairs: map[int][2][]byte{}}
		e2eHookCertLayout = func(dir string) (string, string) {
			ce.dir = dir
			p0 := ce.pair(0)
			ce.certPath, ce.keyPath = filepath.Join(dir, "tls.crt"), filepath.Join(dir, "tls.key")
			os.WriteFile(ce.certPath, p0[0], 0o600)
			os.WriteFile(ce.keyPath, p0[1], 0o600)
			return ce.certPath, ce.keyPath
		}
		env := newE2EEnv(defaultE2EOpts())
		e2eHookCertLayout = nil
		defer env.close()
		time.Sleep(30 * time.Millisecond)
		for k := 1; k <= n; k++ {
			ce.pair(k) // key generation up front
		}
		stop := make(chan struct{})
		var mu sync.Mutex
		fails, total := 0, 0
		var wg sync.WaitGroup
		for g := 0; g < 8; g++ {
			wg.Add(1)
			go func() {
				defer wg.Done()
				for {
					select {
					case <-stop:
						return
					default:
					}
					r := presented(env)
					mu.Lock()
					total++
					if r == "x" {
						fails++
					}
					mu.Unlock()
				}
			}()
		}
		for k := 1; k <= n; k++ {
			os.WriteFile(ce.certPath, ce.pair(k)[0], 0o600)
			os.WriteFile(ce.keyPath, ce.pair(k)[1], 0o600)
			time.Sleep(60 * time.Millisecond)
		}
		close(stop)
		wg.Wait()
		last := settle(env)
		if fails > 0 {
			return fmt.Sprintf("torn-or-failed-handshakes=%d/%d last=%s", fails, total, last)
		}
		return "ok last=" + last
	})

	register("cert", "C14: file-operation histories on the watched certificate paths against the real CertWatcher", func(c *ctx) {
		for i := 0; i < c.count; i++ {
			r := c.rng.fork()
			style := []string{"inplace", "rename", "symlink"}[r.intn(3)]
			var steps []string
			k := 0
			for j, n := 0, r.rangeI(2, 8); j < n; j++ {
				which := "ck"[r.intn(2)]
				switch style {
				case "inplace":
					switch r.intn(7) {
					case 0:
						steps = append(steps, "t"+string(which))
					case 1:
						steps = append(steps, "g"+string(which))
					case 2:
						steps = append(steps, fmt.Sprintf("p%c%d", which, k+1))
					default: // a full update in either file order
						k++
						if r.chance(1, 2) {
							steps = append(steps, fmt.Sprintf("wc%d", k), fmt.Sprintf("wk%d", k))
						} else {
							steps = append(steps, fmt.Sprintf("wk%d", k), fmt.Sprintf("wc%d", k))
						}
					}
				case "rename":
					k++
					if r.chance(1, 2) {
						steps = append(steps, fmt.Sprintf("rc%d", k), fmt.Sprintf("rk%d", k))
					} else {
						steps = append(steps, fmt.Sprintf("rk%d", k), fmt.Sprintf("rc%d", k))
					}
				case "symlink":
					k++
					switch r.intn(6) {
					case 0:
						steps = append(steps, fmt.Sprintf("M%d.%d", k, k+7)) // mismatched pair
					default:
						steps = append(steps, fmt.Sprintf("S%d", k))
					}
				}
			}
			if k > 0 && r.chance(1, 3) {
				// a chain-only update: the new certificate file holds the same leaf (same key) and a different rest of chain
				switch style {
				case "inplace":
					steps = append(steps, fmt.Sprintf("wc%d", k+100))
				case "rename":
					steps = append(steps, fmt.Sprintf("rc%d", k+100))
				default:
					steps = append(steps, fmt.Sprintf("M%d.%d", k+100, k))
				}
				c.tag("chain-only-update")
			}
			if style != "symlink" && r.chance(1, 3) {
				// the history ends with one or both files MISSING: the last good pair must still be presented
				steps = append(steps, []string{"dc", "dk", "dc,dk", "dk,dc"}[r.intn(4)])
				c.tag("ends-with-missing-file")
			}
			c.tag("style:" + style)
			mt := ""
			if style != "inplace" && r.chance(1, 3) {
				mt = " mt=old"
				c.tag("installed-files-carry-old-mtimes")
			}
			if r.chance(1, 3) {
				mt += fmt.Sprintf(" sp=%d", 1+r.intn(3))
				c.tag("configured-path-not-clean")
			}
			c.op(fmt.Sprintf("cert style=%s steps=%s%s", style, strings.Join(steps, ","), mt))  // oracle: the property
			c.op(fmt.Sprintf("certm style=%s steps=%s%s", style, strings.Join(steps, ","), mt)) // correspondence: code + inotify contract
		}
		for i := 0; i < 1+c.count/10; i++ {
			c.tag("concurrent-handshakes")
			c.op(fmt.Sprintf("certrace n=%d", 5+i%4))
		}
		for _, st := range []string{"rename steps=rc1,rk1", "rename steps=rk1,rc1", "symlink steps=S1", "symlink steps=S1,S2"} {
			c.tag("installed-files-carry-old-mtimes")
			c.op("cert style=" + st + " mt=old")
			c.op("certm style=" + st + " mt=old")
		}
		for sp := 1; sp <= 3; sp++ {
			c.tag("configured-path-not-clean")
			for _, st := range []string{"inplace steps=wc1,wk1", "rename steps=rk1,rc1", "symlink steps=S1"} {
				c.op(fmt.Sprintf("cert style=%s sp=%d", st, sp))
				c.op(fmt.Sprintf("certm style=%s sp=%d", st, sp))
			}
		}
		// the documented finding D17: swap of the symlinked directory WITHOUT deleting the old one
		c.op("cert style=symlink steps=S1,s2")
		c.op("certm style=symlink steps=S1,s2")
	})
}
