//go:build verif

package main

import (
	"fmt"
	"strings"
)

// generator for the server-sends-under-flow-control stream (executed by the pkg/http2 test harness)
func init() {
	register("h2stx", "C12: the server's DATA under the peer's stream / connection windows, SETTINGS_INITIAL_WINDOW_SIZE changes while responses are in flight (streams open and half-closed)", func(c *ctx) {
		c.deferred = true
		for i := 0; i < c.count; i++ {
			r := c.rng.fork()
			body := []int{0, 1, 10, 50, 5000, 70000, 200000}[r.intn(7)]
			var toks []string
			single := r.chance(1, 3)
			if !single {
				toks = append(toks, "W0.1073741824") // the connection window never limits: per-stream totals are deterministic
			}
			if r.chance(2, 3) {
				toks = append(toks, fmt.Sprintf("S%d", []int{0, 1, 4, 10, 50, 1000, 65535, 100000}[r.intn(8)]))
			}
			next := 1
			var open, live []int
			nstreams := 0
			for j, n := 0, []int{3, 8, 20}[r.intn(3)]; j < n; j++ {
				switch r.intn(8) {
				case 0, 1:
					if single && nstreams >= 1 {
						continue
					}
					es := r.intn(2)
					toks = append(toks, fmt.Sprintf("H%d.%d", next, es))
					if es == 0 {
						open = append(open, next)
					}
					live = append(live, next)
					next += 2
					nstreams++
				case 2, 3:
					toks = append(toks, fmt.Sprintf("S%d", []int{0, 1, 4, 10, 50, 1000, 65535, 100000}[r.intn(8)]))
				case 4, 5:
					if len(live) > 0 {
						toks = append(toks, fmt.Sprintf("W%d.%d", live[r.intn(len(live))], []int{1, 5, 10, 100, 5000, 100000}[r.intn(6)]))
					}
				case 6:
					if single {
						toks = append(toks, fmt.Sprintf("W0.%d", []int{1, 10, 1000, 100000}[r.intn(4)]))
					}
				default:
					if len(open) > 0 {
						k := r.intn(len(open))
						toks = append(toks, fmt.Sprintf("E%d", open[k]))
						open = append(open[:k], open[k+1:]...)
					}
				}
			}
			// finally open every window: everything queued must arrive
			toks = append(toks, "S1000000")
			if single {
				toks = append(toks, "W0.1000000")
			}
			c.tag(fmt.Sprintf("streams:%d", nstreams))
			c.tag(map[bool]string{true: "conn-window-limits", false: "stream-windows-only"}[single])
			c.op(fmt.Sprintf("h2stx body=%d ev=%s", body, strings.Join(toks, ",")))
		}
	})
}
