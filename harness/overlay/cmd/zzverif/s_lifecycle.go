//go:build verif

package main

import (
	"bytes"
	"crypto/tls"
	"fmt"
	"io"
	"net"
	"runtime/pprof"
	"strconv"
	"strings"
	"time"

	"github.com/wi1dcard/fingerproxy/pkg/http2"
	"golang.org/x/net/http2/hpack"
)

// proxyGoroutines counts goroutines that serve client connections of the proxy.
func proxyGoroutines() int {
	var buf bytes.Buffer
	pprof.Lookup("goroutine").WriteTo(&buf, 2)
	n := 0
	for _, g := range strings.Split(buf.String(), "\n\n") {
		if strings.Contains(g, "proxyserver.(*Server).serveConn") || strings.Contains(g, "pkg/http2.(*serverConn)") ||
			strings.Contains(g, "pkg/http2.(*Server).ServeConn") {
			n++
		}
	}
	return n
}

// waitReleased: every accepted connection closed by the proxy and no serving goroutine left
func waitReleased(e *e2eEnv, want int, d time.Duration) (bool, string) {
	deadline := time.Now().Add(d)
	acc, closed, g := 0, 0, 0
	for time.Now().Before(deadline) {
		acc, closed = e.accepted.stats()
		g = proxyGoroutines()
		if acc >= want && closed == acc && g == 0 {
			return true, ""
		}
		time.Sleep(15 * time.Millisecond)
	}
	return false, fmt.Sprintf("accepted=%d,closed=%d,goroutines=%d", acc, closed, g)
}

// timeToClose waits until the peer closes the connection (EOF / reset / GOAWAY then EOF); returns false
// when it is still open after d.
func closedWithin(c net.Conn, d time.Duration) bool {
	c.SetReadDeadline(time.Now().Add(d))
	buf := make([]byte, 4096)
	for {
		_, err := c.Read(buf)
		if err != nil {
			ne, ok := err.(net.Error)
			return !(ok && ne.Timeout())
		}
	}
}

func init() {
	// life kind=<idle|hstall|abort> ...: C11 scenarios against the real stack with short timeouts
	registerOp("life", func(a []string) string {
		kv := map[string]string{}
		for _, t := range a {
			if i := strings.IndexByte(t, '='); i > 0 {
				kv[t[:i]] = t[i+1:]
			}
		}
		num := func(k string, def int) int {
			if v, ok := kv[k]; ok {
				n, _ := strconv.Atoi(v)
				return n
			}
			return def
		}
		o := defaultE2EOpts()
		idle, hto := num("idle", 300), num("hto", 300)
		o.IdleTimeout = fmt.Sprintf("%dms", idle)
		o.TLSHandshakeTimeout = fmt.Sprintf("%dms", hto)
		env := newE2EEnv(o)
		defer env.close()
		alpn := []string{"http/1.1"}
		if kv["proto"] == "h2" {
			alpn = []string{"h2"}
		}
		req := []e2eReq{{method: "GET", path: "/", host: "example.test", order: "mspa", tag: "life", hasUA: true, ua: "verif"}}
		closed := "n/a"
		switch kv["kind"] {
		case "idle":
			// serve one request, then go idle: the proxy must cut the connection after the idle timeout
			conn, _, neg, err := dialProxy(env, clientCfg{kind: "go", sni: "example.test", alpn: alpn, peer: "127.0.0.1"})
			if err != nil {
				return "fail=handshake"
			}
			conn.SetDeadline(time.Time{})
			if neg == "h2" && kv["how"] == "rst" {
				// the only stream of the connection ends by a client RST_STREAM instead of a complete exchange;
				// the connection is idle afterwards all the same
				io.WriteString(conn, http2.ClientPreface)
				fr := http2.NewFramer(conn, conn)
				fr.WriteSettings()
				var hb bytes.Buffer
				enc := hpack.NewEncoder(&hb)
				for _, f := range [][2]string{{":method", "POST"}, {":scheme", "https"}, {":path", "/slow"}, {":authority", "example.test"}, {"x-verif-tag", "life"}} {
					enc.WriteField(hpack.HeaderField{Name: f[0], Value: f[1]})
				}
				fr.WriteHeaders(http2.HeadersFrameParam{StreamID: 1, BlockFragment: hb.Bytes(), EndHeaders: true, EndStream: false})
				time.Sleep(30 * time.Millisecond)
				fr.WriteRSTStream(1, http2.ErrCodeCancel)
			} else if neg == "h2" && (kv["how"] == "selfdep" || kv["how"] == "malformed" || kv["how"] == "trailersonly") {
				// a complete exchange on stream 1; then the LAST stream of the connection is one the server refuses with a
				// stream error (HEADERS depending on its own stream / a malformed header block) or a bare END_STREAM HEADERS
				// with no body at all; the client then goes silent: the connection is idle all the same
				io.WriteString(conn, http2.ClientPreface)
				fr := http2.NewFramer(conn, conn)
				fr.WriteSettings()
				var hb bytes.Buffer
				enc := hpack.NewEncoder(&hb)
				block := func(extra ...[2]string) []byte {
					hb.Reset()
					for _, f := range append([][2]string{{":method", "GET"}, {":scheme", "https"}, {":path", "/"}, {":authority", "example.test"}, {"x-verif-tag", "life"}}, extra...) {
						enc.WriteField(hpack.HeaderField{Name: f[0], Value: f[1]})
					}
					return append([]byte{}, hb.Bytes()...)
				}
				fr.WriteHeaders(http2.HeadersFrameParam{StreamID: 1, BlockFragment: block(), EndHeaders: true, EndStream: true})
				conn.SetReadDeadline(time.Now().Add(3 * time.Second))
				for {
					f, err := fr.ReadFrame()
					if err != nil {
						break
					}
					if sf, ok := f.(*http2.SettingsFrame); ok && !sf.IsAck() {
						fr.WriteSettingsAck()
					}
					if df, ok := f.(*http2.DataFrame); ok && df.StreamID == 1 && df.StreamEnded() {
						break
					}
					if hf, ok := f.(*http2.HeadersFrame); ok && hf.StreamID == 1 && hf.StreamEnded() {
						break
					}
				}
				conn.SetReadDeadline(time.Time{})
				switch kv["how"] {
				case "selfdep":
					fr.WriteHeaders(http2.HeadersFrameParam{StreamID: 3, BlockFragment: block(), EndHeaders: true, EndStream: true,
						Priority: http2.PriorityParam{StreamDep: 3, Weight: 10}})
				case "malformed":
					fr.WriteHeaders(http2.HeadersFrameParam{StreamID: 3, BlockFragment: block([2]string{"Upper-Case", "x"}), EndHeaders: true, EndStream: true})
				default:
					fr.WriteHeaders(http2.HeadersFrameParam{StreamID: 3, BlockFragment: block(), EndHeaders: true, EndStream: true})
				}
			} else if neg == "h2" {
				h2Exchange(conn, []string{"S:", "H:1.1.-.0.0"}, req)
			} else {
				h1Exchange(conn, req)
			}
			if closedWithin(conn, time.Duration(idle)*4*time.Millisecond+1500*time.Millisecond) {
				closed = "1"
			} else {
				closed = "0"
			}
			// the client keeps ITS end open until the proxy has released everything: a proxy that only half-closes and then
			// waits for the client would otherwise go unnoticed
			defer conn.Close()
		case "pstall":
			// HTTP/2 negotiated, then `at` octets of the connection preface (possibly none) and silence: the server's preface
			// timeout (a fixed 10 s) must cut the connection and leave nothing behind; several clients in parallel
			var conns []net.Conn
			for _, as := range strings.Split(kv["ats"], ",") {
				at, _ := strconv.Atoi(as)
				conn, _, _, err := dialProxy(env, clientCfg{kind: "go", sni: "example.test", alpn: []string{"h2"}, peer: "127.0.0.1"})
				if err != nil {
					return "fail=handshake"
				}
				conn.SetDeadline(time.Time{})
				io.WriteString(conn, http2.ClientPreface[:at%len(http2.ClientPreface)])
				conns = append(conns, conn)
			}
			closed = "1"
			res := make(chan bool, len(conns))
			for _, conn := range conns {
				go func(conn net.Conn) { res <- closedWithin(conn, 13*time.Second) }(conn)
			}
			for range conns {
				if !<-res {
					closed = "0"
				}
			}
			for _, conn := range conns {
				defer conn.Close()
			}
			ok, why := waitReleased(env, len(conns), 4*time.Second)
			rel := "1"
			if !ok {
				rel = "0:" + why
			}
			return "closed=" + closed + " released=" + rel
		case "hstall":
			// send a prefix of a ClientHello (possibly nothing) and stall
			c, err := net.DialTimeout("tcp", env.addr, 3*time.Second)
			if err != nil {
				return "fail=dial"
			}
			h := genHello(newRng(uint64(num("at", 0)) + 5))
			rec := h.Record()
			at := num("at", 0)
			if at > len(rec) {
				at = len(rec) - 1
			}
			c.Write(rec[:at])
			if closedWithin(c, time.Duration(hto)*4*time.Millisecond+1500*time.Millisecond) {
				closed = "1"
			} else {
				closed = "0"
			}
			defer c.Close()
		case "bstall":
			// the first bytes are not a TLS record at all (plain HTTP on the TLS port, SSLv2, noise); the client reads whatever
			// the proxy answers and then stays connected and silent: it must be cut all the same
			c, err := net.DialTimeout("tcp", env.addr, 3*time.Second)
			if err != nil {
				return "fail=dial"
			}
			c.Write(unhx(kv["pre"]))
			if closedWithin(c, time.Duration(hto)*4*time.Millisecond+1500*time.Millisecond) {
				closed = "1"
			} else {
				closed = "0"
			}
			defer c.Close()
		case "abort":
			// client closes / resets after `at` bytes written, at any point of the handshake or of HTTP traffic
			d := net.Dialer{Timeout: 3 * time.Second}
			raw, err := d.Dial("tcp", env.addr)
			if err != nil {
				return "fail=dial"
			}
			cc := &cutConn{Conn: raw, at: num("at", 100), rst: kv["rst"] == "1"}
			tc := tls.Client(cc, &tls.Config{InsecureSkipVerify: true, NextProtos: alpn})
			tc.SetDeadline(time.Now().Add(3 * time.Second))
			if err := tc.Handshake(); err == nil {
				r2 := req
				r2[0].method, r2[0].body = "POST", bytes.Repeat([]byte("x"), 2000)
				if tc.ConnectionState().NegotiatedProtocol == "h2" {
					h2Exchange(tc, []string{"S:3.100", "W:0.1000", "H:1.1.-.0.1"}, r2)
				} else {
					h1Exchange(tc, r2)
				}
			}
			raw.Close()
			closed = "1"
		case "stallmid":
			// complete the handshake, send half a request, then stall silently; then close
			conn, _, neg, err := dialProxy(env, clientCfg{kind: "go", sni: "example.test", alpn: alpn, peer: "127.0.0.1"})
			if err != nil {
				return "fail=handshake"
			}
			if neg == "h2" {
				io.WriteString(conn, http2.ClientPreface[:num("at", 10)%len(http2.ClientPreface)])
			} else {
				io.WriteString(conn, "GET / HTTP/1.1\r\nHost: exa"[:num("at", 10)%26])
			}
			time.Sleep(50 * time.Millisecond)
			conn.Close()
			closed = "1"
		}
		ok, why := waitReleased(env, 1, 4*time.Second)
		rel := "1"
		if !ok {
			rel = "0:" + why
		}
		return "closed=" + closed + " released=" + rel
	})

	register("life", "C11: idle cut, handshake stall cut, aborts at byte offsets, mid-request stalls; resources released", func(c *ctx) {
		for _, p := range []string{"h1", "h2"} {
			c.op("life kind=idle proto=" + p + " idle=250")
			c.tag("kind:idle")
		}
		c.op("life kind=idle proto=h2 idle=250 how=rst")
		c.tag("kind:idle-after-rst")
		for _, how := range []string{"selfdep", "malformed", "trailersonly"} {
			c.op("life kind=idle proto=h2 idle=250 how=" + how)
			c.tag("kind:idle-after-" + how)
		}
		c.op("life kind=pstall ats=0,10,23")
		c.tag("kind:preface-stall")
		for _, pre := range []string{"GET / HTTP/1.1\r\nHost: x\r\n\r\n", "POST /x HTTP/1.1\r\n", "HEAD ", "PUT /", "OPTIONS * HTTP/1.1\r\n\r\n", "CONNECT x:443 HTTP/1.1\r\n\r\n",
			"PRI * HTTP/2.0\r\n\r\nSM\r\n\r\n", "\x80\x2e\x01\x00\x02", "\x16\x03\x01", "\x15\x03\x03\x00\x02\x02\x28", "\x00"} {
			c.tag("kind:bstall")
			c.op(fmt.Sprintf("life kind=bstall hto=200 pre=%s", hx([]byte(pre))))
		}
		for i := 0; i < c.count; i++ {
			r := c.rng.fork()
			p := []string{"h1", "h2"}[r.intn(2)]
			switch r.intn(5) {
			case 0:
				c.tag("kind:idle")
				how := ""
				if p == "h2" && r.chance(1, 2) {
					h := []string{"rst", "selfdep", "malformed", "trailersonly"}[r.intn(4)]
					how = " how=" + h
					c.tag("kind:idle-after-" + h)
				}
				c.op(fmt.Sprintf("life kind=idle proto=%s idle=%d%s", p, []int{150, 300, 500}[r.intn(3)], how))
			case 1:
				c.tag("kind:hstall")
				c.op(fmt.Sprintf("life kind=hstall hto=%d at=%d", []int{150, 300}[r.intn(2)], []int{0, 1, 4, 5, 6, 50, 200}[r.intn(7)]))
			case 2, 3:
				c.tag("kind:abort")
				c.op(fmt.Sprintf("life kind=abort proto=%s at=%d rst=%d", p, r.intn(3500), r.intn(2)))
			default:
				c.tag("kind:stallmid")
				c.op(fmt.Sprintf("life kind=stallmid proto=%s at=%d", p, r.intn(26)))
			}
		}
	})
}
