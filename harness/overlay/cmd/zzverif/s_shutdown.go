//go:build verif

package main

import (
	"errors"
	"fmt"
	"io"
	"net"
	"net/http"
	"strconv"
	"strings"
	"time"
)

func init() {
	// shutdown h1idle=<n> h2open=<n> stalled=<n> inflight=<0|1> early=<0|1> twice=<0|1>
	registerOp("shutdown", func(a []string) string {
		kv := map[string]string{}
		for _, t := range a {
			if i := strings.IndexByte(t, '='); i > 0 {
				kv[t[:i]] = t[i+1:]
			}
		}
		num := func(k string) int { n, _ := strconv.Atoi(kv[k]); return n }
		o := defaultE2EOpts()
		o.TLSHandshakeTimeout = "5s"
		if kv["early"] == "1" {
			e2eCancelBeforeServe = true
			defer func() { e2eCancelBeforeServe = false }()
		}
		env := newE2EEnv(o)
		defer env.close()
		slowRelease := make(chan struct{})
		env.backend.mu.Lock()
		env.backend.respond = func(tag string, w http.ResponseWriter, r *http.Request, body []byte) {
			if tag == "slow" {
				<-slowRelease
			}
			w.WriteHeader(200)
			io.WriteString(w, "ok:"+tag)
		}
		env.backend.mu.Unlock()
		req := func(tag string) []e2eReq {
			return []e2eReq{{method: "GET", path: "/", host: "example.test", order: "mspa", tag: tag, hasUA: true, ua: "verif"}}
		}
		var idle, h2s, stalled []net.Conn
		if kv["early"] != "1" {
			for i := 0; i < num("h1idle"); i++ {
				c, _, _, err := dialProxy(env, clientCfg{kind: "go", sni: "example.test", alpn: []string{"http/1.1"}, peer: "127.0.0.1"})
				if err == nil {
					h1Exchange(c, req(fmt.Sprintf("idle%d", i)))
					idle = append(idle, c)
				}
			}
			for i := 0; i < num("h2open"); i++ {
				c, _, _, err := dialProxy(env, clientCfg{kind: "go", sni: "example.test", alpn: []string{"h2"}, peer: "127.0.0.1"})
				if err == nil {
					h2Exchange(c, []string{"S:", "H:1.1.-.0.0"}, req(fmt.Sprintf("h2-%d", i)))
					h2s = append(h2s, c)
				}
			}
			for i := 0; i < num("stalled"); i++ {
				c, err := net.DialTimeout("tcp", env.addr, time.Second)
				if err == nil {
					c.Write([]byte{22, 3, 1})
					stalled = append(stalled, c)
				}
			}
		}
		inflightRes := make(chan string, 1)
		var inflightDone, serveReturned time.Time
		inflight := kv["inflight"] == "1" && kv["early"] != "1"
		if inflight {
			c, _, _, err := dialProxy(env, clientCfg{kind: "go", sni: "example.test", alpn: []string{"http/1.1"}, peer: "127.0.0.1"})
			if err != nil {
				return "fail=inflight-dial"
			}
			go func() {
				h1Exchange(c, req("slow")) // ends with a response (any status) or with the connection closed
				inflightDone = time.Now()
				inflightRes <- "done"
				c.Close()
			}()
			// wait until the backend has the request
			for i := 0; i < 200 && env.backend.get("slow") == nil; i++ {
				time.Sleep(5 * time.Millisecond)
			}
		}
		// hold=1: an HTTP/1.1 connection in the middle of SENDING a request keeps the graceful shutdown of the
		// internal HTTP/1.1 server (and with it the listener) waiting; connections attempted in that window must
		// not be served either
		var held net.Conn
		if kv["hold"] == "1" && kv["early"] != "1" {
			if c, _, _, err := dialProxy(env, clientCfg{kind: "go", sni: "example.test", alpn: []string{"http/1.1"}, peer: "127.0.0.1"}); err == nil {
				io.WriteString(c, "GET /held HTTP/1.1\r\nHost: example.test\r\nX-Verif-Tag: held\r\n")
				time.Sleep(40 * time.Millisecond)
				held = c
			}
		}
		// cancel (SIGINT/SIGTERM in the binary)
		t0 := time.Now()
		env.cancel()
		if kv["twice"] == "1" {
			env.cancel()
		}
		during, heldDrain := "n/a", "n/a"
		if held != nil {
			time.Sleep(60 * time.Millisecond)
			during = "refused"
			for _, al := range []string{"h2", "http/1.1"} {
				// a connection attempted after cancellation must not be served: no HTTP response of any status may
				// come back on it (with the real wiring the proxy would answer 504 itself, its context being
				// cancelled already; a TLS 1.3 client may see its own handshake "succeed" before the server side
				// aborts, so handshake success alone is not the criterion)
				if c, _, neg, err := dialProxy(env, clientCfg{kind: "go", sni: "example.test", alpn: []string{al}, peer: "127.0.0.1"}); err == nil {
					c.SetDeadline(time.Now().Add(2 * time.Second))
					if neg == "h2" {
						if m, _ := h2Exchange(c, []string{"S:", "H:1.1.-.0.0"}, req("during-h2")); m[1] != nil && m[1].status != 0 {
							during = "served"
						}
					} else if rs := h1Exchange(c, req("during-h1")); len(rs) == 1 && rs[0].status != 0 {
						during = "served"
					}
					c.Close()
				}
			}
			// the held connection is still in the middle of its exchange: Serve must not have returned yet
			select {
			case err := <-env.served:
				env.served <- err
				heldDrain = "serve-returned-while-an-exchange-was-open"
			default:
				heldDrain = "ok"
			}
			held.Close()
		}
		ret, early := "hang", "n/a"
		defer close(slowRelease)
		select {
		case err := <-env.served:
			serveReturned = time.Now()
			if errors.Is(err, http.ErrServerClosed) {
				ret = "errclosed"
			} else {
				ret = "other:" + strings.ReplaceAll(fmt.Sprint(err), " ", "_")
			}
			env.served <- err
		case <-time.After(6 * time.Second):
		}
		lat := time.Since(t0)
		// a connection attempted afterwards must not be served
		post := "refused"
		if c, _, _, err := dialProxy(env, clientCfg{kind: "go", sni: "example.test", alpn: []string{"http/1.1"}, peer: "127.0.0.1"}); err == nil {
			rs := h1Exchange(c, req("post"))
			if len(rs) == 1 && rs[0].status == 200 {
				post = "served"
			}
			c.Close()
		}
		lnState := "closed"
		if c, err := net.DialTimeout("tcp", env.addr, 300*time.Millisecond); err == nil {
			lnState = "open"
			c.Close()
		}
		idleState := "closed"
		for _, c := range idle {
			if !closedWithin(c, 1500*time.Millisecond) {
				idleState = "open"
			}
			c.Close()
		}
		for _, c := range append(h2s, stalled...) {
			c.Close()
		}
		ifl := "n/a"
		if inflight {
			select {
			case ifl = <-inflightRes:
				// Serve may only return once no HTTP/1.1 exchange is in flight: the client's exchange must have
				// ended by then (50 ms allowance for the client-side read to be scheduled)
				early = "ok"
				if serveReturned.IsZero() || inflightDone.After(serveReturned.Add(50*time.Millisecond)) {
					early = "exchange-still-in-flight-at-return"
				}
			case <-time.After(3 * time.Second):
				ifl = "hang"
			}
		}
		fast := "1"
		if lat > 4*time.Second {
			fast = "0"
		}
		// C16 at shutdown: every accepted connection — those refused while draining included — is counted exactly once
		counted := "n/a"
		if kv["early"] != "1" {
			deadline := time.Now().Add(5 * time.Second)
			for {
				acc, closed := env.accepted.stats()
				total := 0
				for _, v := range gatherRequestsTotal(env) {
					total += v
				}
				if closed == acc && total == acc {
					counted = "ok"
					break
				}
				if time.Now().After(deadline) {
					counted = fmt.Sprintf("%d/accepted=%d/closed=%d", total, acc, closed)
					break
				}
				time.Sleep(20 * time.Millisecond)
			}
		}
		return fmt.Sprintf("ret=%s fast=%s listener=%s post=%s h1idle=%s inflight=%s drain=%s during=%s held=%s counted=%s", ret, fast, lnState, post, idleState, ifl, early, during, heldDrain, counted)
	})

	// shutdown2: ONE server serving TWO listeners (Serve may be called more than once); after cancellation both calls must
	// return the standard error and both sockets must be closed
	registerOp("shutdown2", func(a []string) string {
		o := defaultE2EOpts()
		env := newE2EEnv(o)
		defer env.close()
		ln2, err := net.Listen("tcp", "127.0.0.1:0")
		if err != nil {
			return "fail=listen"
		}
		served2 := make(chan error, 1)
		go func() { served2 <- env.stack.Server.Serve(ln2) }()
		time.Sleep(50 * time.Millisecond)
		for _, addr := range []string{env.addr, ln2.Addr().String()} {
			if c, err := net.DialTimeout("tcp", addr, time.Second); err == nil {
				c.Close()
			}
		}
		env.cancel()
		res := func(ch chan error, put bool) string {
			select {
			case err := <-ch:
				if put {
					ch <- err
				}
				if errors.Is(err, http.ErrServerClosed) {
					return "errclosed"
				}
				return "other:" + strings.ReplaceAll(fmt.Sprint(err), " ", "_")
			case <-time.After(4 * time.Second):
				return "hang"
			}
		}
		r1, r2 := res(env.served, true), res(served2, false)
		st := func(addr string) string {
			if c, err := net.DialTimeout("tcp", addr, 300*time.Millisecond); err == nil {
				c.Close()
				return "open"
			}
			return "closed"
		}
		out := fmt.Sprintf("ret1=%s ret2=%s ln1=%s ln2=%s", r1, r2, st(env.addr), st(ln2.Addr().String()))
		ln2.Close()
		return out
	})

	register("shutdown", "C17: cancel at every point of a workload against the real stack", func(c *ctx) {
		c.tag("two-listeners")
		c.op("shutdown2")
		c.op("shutdown h1idle=0 h2open=0 stalled=0 inflight=0 early=1 twice=0")
		c.op("shutdown h1idle=0 h2open=0 stalled=0 inflight=0 early=0 twice=1")
		c.op("shutdown h1idle=1 h2open=1 stalled=0 inflight=0 early=0 twice=0 hold=1")
		// the binary itself (Run: flags, signal handling, ListenAndServe) stopped by each signal the statement names
		for _, sig := range []string{"TERM", "INT", "TERM", "INT", "INT again=INT", "TERM again=INT", "TERM again=TERM", "INT again=TERM"} {
			c.tag("binary-signal:" + strings.ReplaceAll(sig, " ", "+"))
			c.op("binsig sig=" + sig)
		}
		for i := 0; i < c.count; i++ {
			r := c.rng.fork()
			c.op(fmt.Sprintf("shutdown h1idle=%d h2open=%d stalled=%d inflight=%d early=%d twice=%d hold=%d", r.intn(4), r.intn(4), r.intn(4), r.intn(2), b2i(r.chance(1, 8)), r.intn(2), b2i(r.chance(1, 3))))
		}
	})
}

var e2eCancelBeforeServe bool
