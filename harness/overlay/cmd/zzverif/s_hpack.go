//go:build verif

package main

import (
	"bytes"
	"errors"
	"fmt"
	"strconv"
	"strings"

	"github.com/wi1dcard/fingerproxy/pkg/http2/hpack"
)

func hpErr(err error) string {
	var de hpack.DecodingError
	switch {
	case err == nil:
		return ""
	case errors.As(err, &de):
		return "err:decoding"
	case errors.Is(err, hpack.ErrStringLength):
		return "err:strlen"
	case errors.Is(err, hpack.ErrInvalidHuffman):
		return "err:huffman"
	}
	return "err:other:" + strings.ReplaceAll(err.Error(), " ", "_")
}

func fieldTok(f hpack.HeaderField) string {
	return fmt.Sprintf("%s:%s:%d", hx([]byte(f.Name)), hx([]byte(f.Value)), b2i(f.Sensitive))
}

func tableTok(t hpack.VerifTable) string {
	var es []string
	for _, e := range t.Ents {
		es = append(es, hx([]byte(e.Name))+":"+hx([]byte(e.Value)))
	}
	return fmt.Sprintf("tab=%d/%d[%s]", t.Size, t.MaxSize, strings.Join(es, ","))
}

// hpdec max=<n> allowed=<n> strlen=<n> w=<hex|C|M<n>,...>: Write each hex chunk, C = Close, M<n> = SetMaxDynamicTableSize;
// answer: emitted fields (in order), the first error, the final table
func hpdecExec(a []string) string {
	kv := map[string]string{}
	for _, t := range a {
		if i := strings.IndexByte(t, '='); i > 0 {
			kv[t[:i]] = t[i+1:]
		}
	}
	num := func(k string, def uint64) uint64 {
		if v, ok := kv[k]; ok {
			n, _ := strconv.ParseUint(v, 10, 64)
			return n
		}
		return def
	}
	var out []string
	d := hpack.NewDecoder(uint32(num("max", 4096)), func(f hpack.HeaderField) { out = append(out, fieldTok(f)) })
	if _, ok := kv["allowed"]; ok {
		d.SetAllowedMaxDynamicTableSize(uint32(num("allowed", 4096)))
	}
	d.SetMaxStringLength(int(num("strlen", 0)))
	for _, w := range strings.Split(kv["w"], ",") {
		var err error
		switch {
		case w == "C":
			err = d.Close()
			if err == nil {
				out = append(out, "closed")
			}
		case strings.HasPrefix(w, "M"):
			n, _ := strconv.ParseUint(w[1:], 10, 32)
			d.SetMaxDynamicTableSize(uint32(n))
		default:
			_, err = d.Write(unhx(w))
		}
		if err != nil {
			// after an error the decoder is dead (the connection is torn down): its table is not compared
			out = append(out, hpErr(err), "tab=dead")
			return strings.Join(out, " ")
		}
	}
	out = append(out, tableTok(d.VerifTable()))
	return strings.Join(out, " ")
}

// hpenc ops=<f<name>.<value>.<s> | m<n> | l<n>,...>: answer: the bytes of every WriteField, final table
func hpencRun(ops []string) (chunks [][]byte, enc *hpack.Encoder, fields []hpack.HeaderField) {
	var buf bytes.Buffer
	enc = hpack.NewEncoder(&buf)
	for _, op := range ops {
		switch op[0] {
		case 'f':
			p := strings.Split(op[1:], ".")
			f := hpack.HeaderField{Name: string(unhx(p[0])), Value: string(unhx(p[1])), Sensitive: p[2] == "1"}
			buf.Reset()
			enc.WriteField(f)
			chunks = append(chunks, append([]byte{}, buf.Bytes()...))
			fields = append(fields, f)
		case 'm':
			n, _ := strconv.ParseUint(op[1:], 10, 32)
			enc.SetMaxDynamicTableSize(uint32(n))
			chunks = append(chunks, nil)
		case 'l':
			n, _ := strconv.ParseUint(op[1:], 10, 32)
			enc.SetMaxDynamicTableSizeLimit(uint32(n))
			chunks = append(chunks, nil)
		}
	}
	return
}

func opsOf(a []string) []string {
	for _, t := range a {
		if strings.HasPrefix(t, "ops=") && len(t) > 4 {
			return strings.Split(t[4:], ",")
		}
	}
	return nil
}

// decodeAll: result of feeding the given writes then Close to a fresh decoder
func decodeAll(max, allowed uint32, strlen int, writes [][]byte) string {
	var out []string
	d := hpack.NewDecoder(max, func(f hpack.HeaderField) { out = append(out, fieldTok(f)) })
	d.SetAllowedMaxDynamicTableSize(allowed)
	d.SetMaxStringLength(strlen)
	for _, w := range writes {
		if _, err := d.Write(w); err != nil {
			return strings.Join(append(out, hpErr(err)), " ")
		}
	}
	if err := d.Close(); err != nil {
		return strings.Join(append(out, hpErr(err)), " ")
	}
	return strings.Join(append(out, tableTok(d.VerifTable())), " ")
}

// decodeBlocks: like decodeAll; a nil write stands for Close() between two header blocks
func decodeBlocks(max, allowed uint32, strlen int, writes [][]byte) string {
	var out []string
	d := hpack.NewDecoder(max, func(f hpack.HeaderField) { out = append(out, fieldTok(f)) })
	d.SetAllowedMaxDynamicTableSize(allowed)
	d.SetMaxStringLength(strlen)
	for _, w := range writes {
		if w == nil {
			if err := d.Close(); err != nil {
				return strings.Join(append(out, hpErr(err)), " ")
			}
			continue
		}
		if _, err := d.Write(w); err != nil {
			return strings.Join(append(out, hpErr(err)), " ")
		}
	}
	if err := d.Close(); err != nil {
		return strings.Join(append(out, hpErr(err)), " ")
	}
	return strings.Join(append(out, tableTok(d.VerifTable())), " ")
}

func init() {
	registerOp("hpdec", hpdecExec)
	registerOp("hpenc", func(a []string) string {
		chunks, enc, _ := hpencRun(opsOf(a))
		var out []string
		for _, c := range chunks {
			if c != nil {
				out = append(out, hx(c))
			}
		}
		out = append(out, tableTok(enc.VerifTable()))
		return strings.Join(out, " ")
	})
	// hprt ops=<...>: encode with the real encoder, decode with the real decoder (each header list = the fields
	// between table-size operations, one block per field here); oracle: same fields, same order, same sensitivity,
	// identical dynamic tables
	registerOp("hprt", func(a []string) string {
		// a final field flushes a pending table-size update, so that both tables can be compared
		chunks, enc, fields := hpencRun(append(opsOf(a), "f782d656e64.31.0"))
		var got []hpack.HeaderField
		dec := hpack.NewDecoder(4096, func(f hpack.HeaderField) { got = append(got, f) })
		dec.SetAllowedMaxDynamicTableSize(1 << 30)
		var block []byte
		flush := func() error {
			if len(block) == 0 {
				return nil
			}
			if _, err := dec.Write(block); err != nil {
				return err
			}
			block = nil
			return dec.Close()
		}
		blockFields := 0
		for _, c := range chunks {
			if c == nil { // a table-size operation ends the current header block
				if err := flush(); err != nil {
					return "rt=FAIL:decode:" + hpErr(err)
				}
				continue
			}
			block = append(block, c...)
			blockFields++
			if blockFields%3 == 0 {
				if err := flush(); err != nil {
					return "rt=FAIL:decode:" + hpErr(err)
				}
			}
		}
		if err := flush(); err != nil {
			return "rt=FAIL:decode:" + hpErr(err)
		}
		if len(got) != len(fields) {
			return fmt.Sprintf("rt=FAIL:count:%d/%d", len(got), len(fields))
		}
		for i := range got {
			if got[i] != fields[i] {
				return fmt.Sprintf("rt=FAIL:field%d", i)
			}
		}
		if tableTok(enc.VerifTable()) != tableTok(dec.VerifTable()) {
			return "rt=FAIL:tables:" + tableTok(enc.VerifTable()) + "!=" + tableTok(dec.VerifTable())
		}
		return "rt=ok"
	})
	// hpfrag max=.. strlen=.. block=<hex> cuts=<n,n,..>: C18 oracle — the decoder's result must not depend on how the
	// block is split across successive writes
	registerOp("hpfrag", func(a []string) string {
		kv := map[string]string{}
		for _, t := range a {
			if i := strings.IndexByte(t, '='); i > 0 {
				kv[t[:i]] = t[i+1:]
			}
		}
		max, _ := strconv.ParseUint(kv["max"], 10, 32)
		strlen, _ := strconv.Atoi(kv["strlen"])
		block := unhx(kv["block"])
		// pre=<hex>,<hex>: earlier header blocks of the same connection (each written whole and closed): the block under test
		// then meets a non-empty dynamic table
		var pre [][]byte
		if kv["pre"] != "" {
			for _, h := range strings.Split(kv["pre"], ",") {
				pre = append(pre, unhx(h), nil)
			}
		}
		whole := decodeBlocks(uint32(max), uint32(max), strlen, append(append([][]byte{}, pre...), block))
		ws := append([][]byte{}, pre...)
		pos := 0
		for _, c := range strings.Split(kv["cuts"], ",") {
			n, _ := strconv.Atoi(c)
			if pos+n > len(block) {
				n = len(block) - pos
			}
			if n > 0 {
				ws = append(ws, block[pos:pos+n])
			}
			pos += n
		}
		if pos < len(block) {
			ws = append(ws, block[pos:])
		}
		frag := decodeBlocks(uint32(max), uint32(max), strlen, ws)
		if whole == frag {
			return "same"
		}
		return "DIFFER whole=[" + strings.ReplaceAll(whole, " ", "_") + "] fragmented=[" + strings.ReplaceAll(frag, " ", "_") + "]"
	})
	registerOp("huffdec", func(a []string) string {
		var buf bytes.Buffer
		_, err := hpack.HuffmanDecode(&buf, unhx(a[0]))
		if err != nil {
			return hpErr(err)
		}
		return "ok " + hx(buf.Bytes())
	})
	registerOp("huffenc", func(a []string) string { return hx(hpack.AppendHuffmanString(nil, string(unhx(a[0])))) })
	registerOp("varint", func(a []string) string {
		n, _ := strconv.Atoi(a[0])
		i, _ := strconv.ParseUint(a[1], 10, 64)
		return hx(hpack.VerifAppendVarInt(byte(n), i))
	})
	registerOp("rdvarint", func(a []string) string {
		n, _ := strconv.Atoi(a[0])
		v, used, st := hpack.VerifReadVarInt(byte(n), unhx(a[1]))
		if st != "ok" {
			return st
		}
		return fmt.Sprintf("ok %d %d", v, used)
	})

	genField := func(r *rng) string {
		names := []string{":method", ":path", ":status", "accept", "cookie", "x-custom", "content-type", "user-agent", "", "x-" + string(r.bytes(3)), string(r.bytes(r.intn(5))), strings.Repeat("n", r.intn(70))}
		values := []string{"GET", "/", "200", "", "a=b", "text/html", "Mozilla/5.0", string(r.bytes(r.intn(8))), strings.Repeat("v", r.intn(300)), strings.Repeat("\xff", r.intn(6)), "www.example.com", strings.Repeat("0", r.intn(5000))}
		return fmt.Sprintf("f%s.%s.%d", hx([]byte(names[r.intn(len(names))])), hx([]byte(values[r.intn(len(values))])), b2i(r.chance(1, 6)))
	}
	genEncOps := func(r *rng) []string {
		var ops []string
		for j, n := 0, r.rangeI(1, 25); j < n; j++ {
			switch r.intn(12) {
			case 0:
				ops = append(ops, fmt.Sprintf("m%d", []int{0, 1, 40, 64, 100, 4096, 5000, 70000}[r.intn(8)]))
			case 1:
				if r.chance(1, 3) {
					ops = append(ops, fmt.Sprintf("l%d", []int{0, 100, 4096, 65536}[r.intn(4)]))
				}
			default:
				f := genField(r)
				ops = append(ops, f)
				if r.chance(1, 3) {
					ops = append(ops, f) // repeated field: exercises the index paths
				}
			}
		}
		return ops
	}

	register("hpack", "C18: encoder sequences, round trips, decoder on encoder output / mutated / random bytes, fragmentations, Huffman, varints", func(c *ctx) {
		// a block that BEGINS with one or two dynamic table size updates (one byte and multi-byte integers), arriving on a
		// connection whose table is already populated, cut at every position
		{
			var pre bytes.Buffer
			pe := hpack.NewEncoder(&pre)
			pe.WriteField(hpack.HeaderField{Name: "x-first", Value: "one"})
			pe.WriteField(hpack.HeaderField{Name: "x-second", Value: "two"})
			for _, ups := range [][]uint32{{30}, {31}, {2048}, {4096}, {0, 4096}, {100, 2048}} {
				var blk bytes.Buffer
				be := hpack.NewEncoder(&blk)
				for _, u := range ups {
					be.SetMaxDynamicTableSize(u)
				}
				be.WriteField(hpack.HeaderField{Name: "x-third", Value: "three"})
				b := blk.Bytes()
				for cut := 1; cut < len(b); cut++ {
					c.tag("frag:size-update-at-block-start")
					c.op(fmt.Sprintf("hpfrag max=4096 strlen=0 pre=%s block=%s cuts=%d", hx(pre.Bytes()), hx(b), cut))
				}
			}
		}
		// varints: boundaries of every prefix size
		for n := 1; n <= 8; n++ {
			for _, i := range []uint64{0, 1, 1<<uint(n) - 2, 1<<uint(n) - 1, 1 << uint(n), 127, 128, 16383, 16384, 1 << 32, 1<<62 - 1, 1 << 62,
				1<<63 - 1, 1 << 63, 1<<63 + 126, 1<<63 + 127, 1<<64 - 1} {
				c.op(fmt.Sprintf("varint %d %d", n, i))
				c.op(fmt.Sprintf("rdvarint %d %s", n, hx(hpack.VerifAppendVarInt(byte(n), i))))
			}
		}
		// string literals whose declared length is huge (every signed/unsigned 32/64-bit boundary the 7-bit-prefix integer
		// can express), for each literal representation, plain and Huffman, with and without a string limit
		for _, v := range []uint64{1<<31 - 1, 1 << 31, 1<<32 - 1, 1 << 32, 1<<62 - 1, 1 << 62, 1<<63 - 1, 1 << 63, 1<<63 + 1, 1<<63 + 126, 1<<63 + 127} {
			for _, first := range []string{"00", "40", "10", "0f01", "41", "11"} {
				for _, huff := range []bool{false, true} {
					l := hpack.VerifAppendVarInt(7, v)
					if huff {
						l[0] |= 0x80
					}
					for _, tail := range []string{"", "61", "616263"} {
						for _, strlen := range []int{0, 16} {
							c.tag("decinput:huge-length")
							c.op(fmt.Sprintf("hpdec max=4096 allowed=4096 strlen=%d w=%s,C", strlen, first+hx(l)+tail))
							if tail != "" {
								c.op(fmt.Sprintf("hpdec max=4096 allowed=4096 strlen=%d w=%s,%s,C", strlen, first+hx(l), tail))
							}
						}
					}
				}
			}
		}
		// fixed shrink / grow / shrink-less schedules over a table of six 36-octet entries (the deepest shrink is not the last
		// one), through the size setter, through the limit setter, and mixed
		{
			var fill []string
			for k := 0; k < 6; k++ {
				fill = append(fill, fmt.Sprintf("f%s.%s.0", hx([]byte(fmt.Sprintf("k%d", k))), hx([]byte(fmt.Sprintf("v%d", k)))))
			}
			tail := []string{"f" + hx([]byte("k7")) + "." + hx([]byte("v7")) + ".0", "f" + hx([]byte("k8")) + "." + hx([]byte("v8")) + ".0"}
			for _, abc := range [][3]int{{40, 4096, 300}, {36, 4096, 2048}, {0, 4096, 1000}, {40, 300, 200}, {72, 4096, 500}, {40, 4096, 80}} {
				for _, pat := range []string{"mmm", "llm", "lml", "mlm", "lll"} {
					ops := append([]string{}, fill...)
					for j, v := range abc {
						ops = append(ops, fmt.Sprintf("%c%d", pat[j], v))
					}
					if pat[2] == 'l' {
						ops = append(ops, fmt.Sprintf("m%d", abc[2]))
					}
					ops = append(ops, tail...)
					line := "ops=" + strings.Join(ops, ",")
					c.tag("encops:fixed-resize-schedule")
					c.op("hpenc " + line)
					c.op("hprt " + line) // oracle
				}
			}
		}
		// resize bursts: a table populated with small entries (36..60 octets each), then SEVERAL SetMaxDynamicTableSize calls
		// between two header blocks — shrink / grow / shrink again, non-monotone, values between one and a few entries — so
		// that the smallest size of the interval matters (RFC 7541 section 4.2: it must be signalled before the final one)
		for i := 0; i < 16+c.count/15; i++ {
			r := c.rng.fork()
			small := func() string {
				return fmt.Sprintf("f%s.%s.0", hx([]byte(fmt.Sprintf("k%d", r.intn(40)))), hx([]byte(fmt.Sprintf("v%0*d", 1+r.intn(12), r.intn(10)))))
			}
			var ops []string
			for j, n := 0, r.rangeI(3, 9); j < n; j++ {
				ops = append(ops, small())
			}
			for b, nb := 0, r.rangeI(1, 3); b < nb; b++ {
				for j, n := 0, r.rangeI(2, 5); j < n; j++ {
					v := []int{0, 30, 40, 64, 80, 100, 120, 150, 300, 4096}[r.intn(10)]
					if i%2 == 1 && r.chance(1, 2) {
						// ... and the LIMIT moved in the same interval (SetMaxDynamicTableSizeLimit shrinks the table too)
						ops = append(ops, fmt.Sprintf("l%d", v))
					} else {
						ops = append(ops, fmt.Sprintf("m%d", v))
					}
				}
				for j, n := 0, r.rangeI(1, 4); j < n; j++ {
					ops = append(ops, small())
				}
			}
			line := "ops=" + strings.Join(ops, ",")
			c.tag("encops:resize-burst")
			c.op("hpenc " + line)
			c.op("hprt " + line) // oracle
		}
		for i := 0; i < c.count; i++ {
			r := c.rng.fork()
			ops := genEncOps(r)
			line := "ops=" + strings.Join(ops, ",")
			c.op("hpenc " + line)
			c.op("hprt " + line) // oracle
			c.tag("encops:" + bucket(len(ops)))
			// decoder: the encoder's output as one block, cut at random places, optionally mutated
			// (the encoder may panic on a changed tree: the hpenc operation above has recorded that; no decoder input then)
			var chunks [][]byte
			func() {
				defer func() { recover() }()
				chunks, _, _ = hpencRun(ops)
			}()
			var block []byte
			for _, ch := range chunks {
				block = append(block, ch...)
			}
			kind := "valid"
			switch r.intn(5) {
			case 0:
				if len(block) > 0 {
					block[r.intn(len(block))] ^= byte(1 << r.intn(8))
					kind = "bitflip"
				}
			case 1:
				block = block[:r.intn(len(block)+1)]
				kind = "truncated"
			case 2:
				block = r.bytes(r.intn(40))
				kind = "random"
			}
			c.tag("decinput:" + kind)
			strlen := []int{0, 0, 0, 5, 16, 127, 300}[r.intn(7)]
			max := []int{4096, 0, 100, 4096, 65536}[r.intn(5)]
			whole := fmt.Sprintf("hpdec max=%d allowed=%d strlen=%d w=%s,C", max, []int{max, 4096, 1 << 20}[r.intn(3)], strlen, hx(block))
			c.op(whole)
			// the same bytes in fragments (all cut positions for short blocks in the thorough tier, random cuts otherwise)
			if len(block) > 1 {
				var ws []string
				pos := 0
				for pos < len(block) {
					k := r.rangeI(1, minI(len(block)-pos, []int{1, 3, 9, 1000}[r.intn(4)]))
					ws = append(ws, hx(block[pos:pos+k]))
					pos += k
				}
				c.op(strings.Replace(whole, "w="+hx(block)+",C", "w="+strings.Join(ws, ",")+",C", 1))
				c.tag("fragments:" + bucket(len(ws)))
			}
			// fragment independence as an oracle, incl. legal representations with non-minimal length prefixes
			{
				fb := block
				fstr := strlen
				if r.chance(1, 4) {
					n := []int{5, 16, 127}[r.intn(3)]
					pad := func(l int) []byte { // 7-bit prefix length `l` >= 127 written with superfluous continuation bytes
						b := []byte{0x7f}
						for k, m := 0, r.intn(9); k < m; k++ {
							b = append(b, 0x80|byte(boolInt(k == 0)*(l-127)))
						}
						if len(b) == 1 {
							return append(b, byte(l-127))
						}
						return append(b, 0)
					}
					if n < 127 {
						pad = func(l int) []byte { return []byte{byte(l)} }
					}
					fb = append([]byte{0x00}, pad(n)...)
					fb = append(fb, bytes.Repeat([]byte("n"), n)...)
					fb = append(fb, pad(n)...)
					fb = append(fb, bytes.Repeat([]byte("v"), n)...)
					fstr = n
					c.tag("frag:nonminimal")
				}
				if len(fb) > 1 {
					var cuts []string
					switch r.intn(3) {
					case 0:
						cuts = []string{strconv.Itoa(len(fb) - 1)}
					case 1:
						cuts = []string{strconv.Itoa(r.rangeI(1, len(fb)-1))}
					default:
						for pos := 0; pos < len(fb); {
							k := r.rangeI(1, 7)
							cuts = append(cuts, strconv.Itoa(k))
							pos += k
						}
					}
					c.op(fmt.Sprintf("hpfrag max=%d strlen=%d block=%s cuts=%s", max, fstr, hx(fb), strings.Join(cuts, ",")))
				}
			}
			// Huffman
			s := r.bytes(r.intn(40))
			if r.chance(1, 2) {
				s = []byte([]string{"www.example.com", "no-cache", "custom-key", "Mon, 21 Oct 2013 20:13:21 GMT", ""}[r.intn(5)])
			}
			c.op("huffenc " + hx(s))
			e := hpack.AppendHuffmanString(nil, string(s))
			if r.chance(1, 3) && len(e) > 0 {
				e[r.intn(len(e))] ^= byte(1 << r.intn(8))
			}
			if r.chance(1, 6) {
				e = append(e, 0xff)
			}
			c.op("huffdec " + hx(e))
			c.op("rdvarint " + strconv.Itoa(r.rangeI(1, 8)) + " " + hx(r.bytes(r.intn(12))))
			{
				// an integer spelled with 8..12 continuation octets (the limit is nine): prefix all ones, k-1 octets with the
				// continuation bit, a final octet
				n := r.rangeI(1, 8)
				k := r.rangeI(8, 12)
				b := []byte{byte(1<<n - 1)}
				for j := 0; j < k-1; j++ {
					b = append(b, 0x80|byte(r.intn(2)*r.intn(128)))
				}
				b = append(b, byte(r.intn(128)))
				c.tag(fmt.Sprintf("varint-continuations:%d", k))
				c.op("rdvarint " + strconv.Itoa(n) + " " + hx(b))
			}
		}
	})
}

func boolInt(b bool) int {
	if b {
		return 1
	}
	return 0
}
