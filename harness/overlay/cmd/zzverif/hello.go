//go:build verif

package main

import (
	"encoding/hex"
	"fmt"
	"strings"
)

// Structured ClientHello shared by the JA3/JA4/capture/e2e streams. The same structure exists in the
// Lean model (Fp.Tls.Hello); the token form below is what the driver parses, and the driver's own
// `serialize` must reproduce `Bytes()` (checked by the `ser` operation).

type Ext struct {
	Kind  string     // sni grp pts alpn sig ver raw
	Type  uint16     // for raw
	Names [][]byte   // sni: each entry = name_type byte followed by the name
	U16s  []uint16   // grp sig ver
	Bytes []byte     // pts / raw body
	Strs  [][]byte   // alpn protocols
}

type Hello struct {
	RecVer, HsVer uint16
	Random        []byte // 32
	SID           []byte
	Ciphers       []uint16
	Comp          []byte
	Exts          []Ext
	NoExts        bool // no extensions block at all
}

func u16s(xs []uint16) []byte {
	b := make([]byte, 0, 2*len(xs))
	for _, x := range xs {
		b = append(b, byte(x>>8), byte(x))
	}
	return b
}

func (e Ext) TypeID() uint16 {
	switch e.Kind {
	case "sni":
		return 0
	case "grp":
		return 10
	case "pts":
		return 11
	case "alpn":
		return 16
	case "sig":
		return 13
	case "ver":
		return 43
	}
	return e.Type
}

func (e Ext) Body() []byte {
	switch e.Kind {
	case "sni":
		var l []byte
		for _, n := range e.Names {
			l = append(l, n[0], byte((len(n)-1)>>8), byte(len(n)-1))
			l = append(l, n[1:]...)
		}
		return append([]byte{byte(len(l) >> 8), byte(len(l))}, l...)
	case "grp", "sig":
		b := u16s(e.U16s)
		return append([]byte{byte(len(b) >> 8), byte(len(b))}, b...)
	case "ver":
		b := u16s(e.U16s)
		return append([]byte{byte(len(b))}, b...)
	case "pts":
		return append([]byte{byte(len(e.Bytes))}, e.Bytes...)
	case "alpn":
		var l []byte
		for _, p := range e.Strs {
			l = append(l, byte(len(p)))
			l = append(l, p...)
		}
		return append([]byte{byte(len(l) >> 8), byte(len(l))}, l...)
	}
	return e.Bytes
}

// Handshake returns the handshake message (type, 24-bit length, body).
func (h *Hello) Handshake() []byte {
	var b []byte
	b = append(b, byte(h.HsVer>>8), byte(h.HsVer))
	b = append(b, h.Random...)
	b = append(b, byte(len(h.SID)))
	b = append(b, h.SID...)
	cs := u16s(h.Ciphers)
	b = append(b, byte(len(cs)>>8), byte(len(cs)))
	b = append(b, cs...)
	b = append(b, byte(len(h.Comp)))
	b = append(b, h.Comp...)
	if !h.NoExts {
		var ex []byte
		for _, e := range h.Exts {
			body := e.Body()
			t := e.TypeID()
			ex = append(ex, byte(t>>8), byte(t), byte(len(body)>>8), byte(len(body)))
			ex = append(ex, body...)
		}
		b = append(b, byte(len(ex)>>8), byte(len(ex)))
		b = append(b, ex...)
	}
	hs := []byte{1, byte(len(b) >> 16), byte(len(b) >> 8), byte(len(b))}
	return append(hs, b...)
}

// Record returns the single TLS record carrying the whole handshake message.
func (h *Hello) Record() []byte {
	hs := h.Handshake()
	rec := []byte{22, byte(h.RecVer >> 8), byte(h.RecVer), byte(len(hs) >> 8), byte(len(hs))}
	return append(rec, hs...)
}

// hx: hex, with "-" for the empty string so that every operation argument is a non-empty token.
func hx(b []byte) string {
	if len(b) == 0 {
		return "-"
	}
	return hex.EncodeToString(b)
}

// Token renders the structured hello for the driver.
func (h *Hello) Token() string {
	var sb strings.Builder
	fmt.Fprintf(&sb, "rv=%04x hv=%04x rnd=%s sid=%s cs=%s cm=%s ex=", h.RecVer, h.HsVer, hx(h.Random), hx(h.SID), hx(u16s(h.Ciphers)), hx(h.Comp))
	if h.NoExts {
		sb.WriteString("none")
		return sb.String()
	}
	parts := []string{}
	for _, e := range h.Exts {
		switch e.Kind {
		case "sni":
			ns := []string{}
			for _, n := range e.Names {
				ns = append(ns, hx(n))
			}
			parts = append(parts, "sni/"+strings.Join(ns, "."))
		case "grp", "sig", "ver":
			parts = append(parts, e.Kind+"/"+hx(u16s(e.U16s)))
		case "pts":
			parts = append(parts, "pts/"+hx(e.Bytes))
		case "alpn":
			ns := []string{}
			for _, n := range e.Strs {
				ns = append(ns, hx(n))
			}
			parts = append(parts, "alpn/"+strings.Join(ns, "."))
		default:
			parts = append(parts, fmt.Sprintf("raw/%04x.%s", e.Type, hx(e.Bytes)))
		}
	}
	sb.WriteString("list:" + strings.Join(parts, ","))
	return sb.String()
}

var greaseVals = []uint16{0x0a0a, 0x1a1a, 0x2a2a, 0x3a3a, 0x4a4a, 0x5a5a, 0x6a6a, 0x7a7a, 0x8a8a, 0x9a9a, 0xaaaa, 0xbaba, 0xcaca, 0xdada, 0xeaea, 0xfafa}

// near-GREASE values: they differ from a GREASE code point in one nibble / byte and must NOT be filtered.
var nearGrease = []uint16{0x0a0b, 0x0b0a, 0x0a1a, 0x1a0a, 0x0a0a + 1, 0xfafb, 0xfbfa, 0x0a00, 0x000a, 0xaa0a, 0x0aaa}

var commonCiphers = []uint16{0x1301, 0x1302, 0x1303, 0xc02b, 0xc02f, 0xc02c, 0xc030, 0xcca9, 0xcca8, 0xc013, 0xc014, 0x009c, 0x009d, 0x002f, 0x0035, 0x000a, 0x00ff, 0x5600}

// genU16List makes a list of n values with GREASE forced at chosen positions.
func genU16List(r *rng, n int, pool []uint16, mode int) []uint16 {
	xs := make([]uint16, n)
	for i := range xs {
		switch r.intn(10) {
		case 0:
			xs[i] = r.pick16(greaseVals)
		case 1:
			xs[i] = r.pick16(nearGrease)
		case 2, 3:
			xs[i] = r.u16()
		default:
			xs[i] = r.pick16(pool)
		}
	}
	if n == 0 {
		return xs
	}
	switch mode {
	case 1: // GREASE first
		xs[0] = r.pick16(greaseVals)
	case 2: // GREASE last
		xs[n-1] = r.pick16(greaseVals)
	case 3: // all GREASE
		for i := range xs {
			xs[i] = r.pick16(greaseVals)
		}
	case 4: // GREASE first and last
		xs[0] = r.pick16(greaseVals)
		xs[n-1] = r.pick16(greaseVals)
	case 5: // no GREASE at all
		for i := range xs {
			for isGreaseGo(xs[i]) {
				xs[i] = r.pick16(pool)
			}
		}
	case 6: // last two GREASE
		xs[n-1] = r.pick16(greaseVals)
		if n > 1 {
			xs[n-2] = r.pick16(greaseVals)
		}
	}
	return xs
}

func isGreaseGo(v uint16) bool { return v&0x0f0f == 0x0a0a && v>>8 == v&0xff }

func listLen(r *rng) int {
	if r.chance(1, 12) {
		// counts around the 8-bit and the two-digit boundaries (JA4 prints min(count, 99))
		return []int{98, 99, 100, 101, 255, 256, 257, 299, 300, 354, 355, 356, 511, 512, 600}[r.intn(15)]
	}
	switch r.intn(8) {
	case 0:
		return 0
	case 1:
		return 1
	case 2:
		return 2
	case 3:
		return r.rangeI(3, 6)
	case 4:
		return r.rangeI(90, 130)
	default:
		return r.rangeI(3, 40)
	}
}

// genHello produces a well-formed hello (in the sense of Fp.Tls.WellFormed): all lengths fit, the
// known extension bodies are in RFC shape, extension types are pairwise different.
func genHello(r *rng) *Hello {
	h := &Hello{RecVer: []uint16{0x0301, 0x0303, 0x0300, 0x0302, 0x0304}[r.intn(5)],
		HsVer: []uint16{0x0303, 0x0303, 0x0303, 0x0302, 0x0301, 0x0304}[r.intn(6)], Random: r.bytes(32)}
	if r.chance(1, 2) {
		h.SID = r.bytes(32)
	} else if r.chance(1, 4) {
		h.SID = r.bytes(r.intn(33))
	}
	h.Ciphers = genU16List(r, listLen(r), commonCiphers, r.intn(8))
	h.Comp = []byte{0}
	if r.chance(1, 10) {
		h.Comp = r.bytes(r.intn(4))
	}
	if r.chance(1, 8) {
		h.NoExts = true
		return h
	}
	used := map[uint16]bool{}
	nExt := listLen(r)
	if nExt > 60 && nExt < 250 {
		nExt = 60 + r.intn(50)
	}
	many := nExt >= 250
	mode := r.intn(8)
	for i := 0; i < nExt; i++ {
		var e Ext
		k := r.intn(14)
		if (mode == 1 && i == 0) || (mode == 2 && i == nExt-1) || mode == 3 || (mode == 4 && (i == 0 || i == nExt-1)) {
			k = 100
		}
		switch k {
		case 0:
			e = Ext{Kind: "sni", Names: [][]byte{append([]byte{0}, []byte(genHost(r))...)}}
		case 1:
			e = Ext{Kind: "grp", U16s: genU16List(r, listLen(r), []uint16{29, 23, 24, 25, 256, 257, 0x6399, 4588}, r.intn(8))}
		case 2:
			e = Ext{Kind: "pts", Bytes: r.bytes(r.intn(4))}
			if r.chance(2, 3) {
				e.Bytes = []byte{0}
			}
		case 3:
			e = Ext{Kind: "alpn", Strs: genALPN(r)}
		case 4:
			e = Ext{Kind: "sig", U16s: genU16List(r, r.rangeI(1, 12), []uint16{0x0403, 0x0804, 0x0401, 0x0503, 0x0805, 0x0501, 0x0806, 0x0601, 0x0201}, 5)}
		case 5:
			e = Ext{Kind: "ver", U16s: genU16List(r, r.rangeI(1, 5), []uint16{0x0304, 0x0303, 0x0302, 0x0301}, r.intn(8))}
		case 100:
			e = Ext{Kind: "raw", Type: r.pick16(greaseVals), Bytes: r.bytes(r.intn(2))}
		default:
			// unknown / opaque extension types that neither tlsx nor crypto/tls interpret structurally
			t := []uint16{23, 65281, 35, 5, 18, 51, 45, 27, 21, 17513, 0xff00, 0x8000, 12345, 7, 9}[r.intn(15)]
			if r.chance(1, 4) || many {
				t = r.u16()
			}
			if r.chance(1, 8) && !many {
				t = r.pick16(greaseVals)
			}
			if r.chance(1, 10) {
				t = r.pick16(nearGrease)
			}
			e = Ext{Kind: "raw", Type: t, Bytes: r.bytes(r.intn(12))}
			if many {
				e.Bytes = r.bytes(r.intn(3))
			}
			if t == 0 || t == 10 || t == 11 || t == 13 || t == 16 || t == 43 {
				continue
			}
		}
		if used[e.TypeID()] {
			continue
		}
		used[e.TypeID()] = true
		h.Exts = append(h.Exts, e)
	}
	return h
}

func genHost(r *rng) string {
	n := r.rangeI(1, 30)
	switch r.intn(12) {
	case 0:
		n = r.rangeI(250, 260) // D8 boundary: list length around 256
	case 1:
		n = r.rangeI(505, 520)
	}
	b := make([]byte, n)
	for i := range b {
		b[i] = "abcdefghijklmnopqrstuvwxyz0123456789-."[r.intn(38)]
	}
	return string(b)
}

func genALPN(r *rng) [][]byte {
	pool := [][]byte{[]byte("h2"), []byte("http/1.1"), []byte("h3"), []byte("x"), []byte("ab"), []byte("abc"), {0xff, 0x61}, {0x61, 0x80}, []byte("spdy/3.1")}
	n := r.rangeI(1, 3)
	out := [][]byte{}
	for i := 0; i < n; i++ {
		out = append(out, pool[r.intn(len(pool))])
	}
	return out
}

func unhx(s string) []byte {
	if s == "-" || s == "" {
		return nil
	}
	b, err := hex.DecodeString(s)
	if err != nil {
		panic("bad hex in op: " + s)
	}
	return b
}

func toU16s(b []byte) []uint16 {
	xs := make([]uint16, len(b)/2)
	for i := range xs {
		xs[i] = uint16(b[2*i])<<8 | uint16(b[2*i+1])
	}
	return xs
}

// parseHelloToken is the inverse of Token (operations are self-contained lines).
func parseHelloToken(toks []string) *Hello {
	h := &Hello{}
	for _, t := range toks {
		i := strings.IndexByte(t, '=')
		if i < 0 {
			continue
		}
		k, v := t[:i], t[i+1:]
		switch k {
		case "rv":
			h.RecVer = toU16s(unhx(v))[0]
		case "hv":
			h.HsVer = toU16s(unhx(v))[0]
		case "rnd":
			h.Random = unhx(v)
		case "sid":
			h.SID = unhx(v)
		case "cs":
			h.Ciphers = toU16s(unhx(v))
		case "cm":
			h.Comp = unhx(v)
		case "ex":
			if v == "none" {
				h.NoExts = true
				continue
			}
			v = strings.TrimPrefix(v, "list:")
			if v == "" {
				continue
			}
			for _, et := range strings.Split(v, ",") {
				j := strings.IndexByte(et, '/')
				kind, rest := et[:j], et[j+1:]
				e := Ext{Kind: kind}
				switch kind {
				case "sni":
					if rest != "" {
						for _, n := range strings.Split(rest, ".") {
							e.Names = append(e.Names, unhx(n))
						}
					}
				case "grp", "sig", "ver":
					e.U16s = toU16s(unhx(rest))
				case "pts":
					e.Bytes = unhx(rest)
				case "alpn":
					if rest != "" {
						for _, n := range strings.Split(rest, ".") {
							e.Strs = append(e.Strs, unhx(n))
						}
					}
				case "raw":
					p := strings.SplitN(rest, ".", 2)
					e.Type = toU16s(unhx(p[0]))[0]
					e.Bytes = unhx(p[1])
				}
				h.Exts = append(h.Exts, e)
			}
		}
	}
	return h
}
