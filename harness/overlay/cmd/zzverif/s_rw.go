//go:build verif

package main

import (
	fingerproxy "github.com/wi1dcard/fingerproxy"
	"os"
	"crypto/tls"
	"errors"
	"fmt"
	"io"
	"log"
	"net/http"
	"net/http/httptest"
	"net/http/httputil"
	"net/textproto"
	"net/url"
	"sort"
	"strings"

	"github.com/wi1dcard/fingerproxy/pkg/reverseproxy"
)

// recording transport: the outbound request as ReverseProxy hands it to the backend connection
type recTransport struct{ got *http.Request }

func (t *recTransport) RoundTrip(r *http.Request) (*http.Response, error) {
	t.got = r
	return &http.Response{StatusCode: 204, Header: http.Header{}, Body: io.NopCloser(strings.NewReader("")), Request: r}, nil
}

type scriptInjector struct {
	name string
	val  string
	err  bool
}

func (s *scriptInjector) GetHeaderName() string { return s.name }
func (s *scriptInjector) GetHeaderValue(*http.Request) (string, error) {
	if s.err {
		return "", errors.New("scripted injector error")
	}
	return s.val, nil
}

type rwCase struct {
	ph, probe, tls bool
	ra, host       string
	method, path   string
	query, to      string
	lines          [][2]string
	injs           []*scriptInjector
}

func parseRW(a []string) *rwCase {
	c := &rwCase{}
	for _, t := range a {
		i := strings.IndexByte(t, '=')
		k, v := t[:i], t[i+1:]
		switch k {
		case "ph":
			c.ph = v == "1"
		case "probe":
			c.probe = v == "1"
		case "tls":
			c.tls = v == "1"
		case "ra":
			c.ra = string(unhx(v))
		case "host":
			c.host = string(unhx(v))
		case "m":
			c.method = string(unhx(v))
		case "path":
			c.path = string(unhx(v))
		case "q":
			c.query = string(unhx(v))
		case "to":
			c.to = string(unhx(v))
		case "hdr":
			if v != "-" && v != "" {
				for _, e := range strings.Split(v, ",") {
					p := strings.SplitN(e, ":", 2)
					c.lines = append(c.lines, [2]string{string(unhx(p[0])), string(unhx(p[1]))})
				}
			}
		case "inj":
			if v != "-" && v != "" {
				for _, e := range strings.Split(v, ",") {
					p := strings.SplitN(e, ":", 2)
					in := &scriptInjector{name: string(unhx(p[0]))}
					if p[1] == "e" {
						in.err = true
					} else {
						in.val = string(unhx(p[1][1:]))
					}
					c.injs = append(c.injs, in)
				}
			}
		}
	}
	return c
}

type rwResult struct {
	local  bool
	status int
	body   string
	out    *http.Request
}

// runRW drives the real HTTPHandler with a recording transport.
func runRW(c *rwCase) rwResult {
	to, err := url.Parse(c.to)
	if err != nil {
		panic(err)
	}
	rt := &recTransport{}
	var injs []reverseproxy.HeaderInjector
	for _, i := range c.injs {
		injs = append(injs, i)
	}
	h := reverseproxy.NewHTTPHandler(to, &httputil.ReverseProxy{Transport: rt, ErrorLog: log.New(io.Discard, "", 0)}, injs)
	h.PreserveHost = c.ph
	if c.probe {
		h.IsProbeRequest = reverseproxy.IsKubernetesProbeRequest
	}
	hdr := http.Header{}
	for _, l := range c.lines {
		k := textproto.CanonicalMIMEHeaderKey(l[0]) // what net/http's servers do with a wire header line
		hdr[k] = append(hdr[k], l[1])
	}
	req := &http.Request{Method: c.method, URL: &url.URL{Path: c.path, RawQuery: c.query}, Host: c.host,
		RemoteAddr: c.ra, Header: hdr, Proto: "HTTP/1.1", ProtoMajor: 1, ProtoMinor: 1, Body: http.NoBody}
	if c.tls {
		req.TLS = &tls.ConnectionState{}
	}
	req = req.WithContext(req.Context())
	rec := httptest.NewRecorder()
	h.ServeHTTP(rec, req)
	if rt.got == nil {
		return rwResult{local: true, status: rec.Code, body: rec.Body.String()}
	}
	return rwResult{out: rt.got}
}

func hdrCanon(h http.Header, only func(string) bool) string {
	var keys []string
	for k, v := range h {
		if len(v) == 0 {
			continue
		}
		if only != nil && !only(k) {
			continue
		}
		keys = append(keys, k)
	}
	sort.Strings(keys)
	var parts []string
	for _, k := range keys {
		vs := make([]string, len(h[k]))
		for i, v := range h[k] {
			vs[i] = hx([]byte(v))
		}
		parts = append(parts, hx([]byte(k))+"="+strings.Join(vs, "|"))
	}
	return dash(strings.Join(parts, ";"))
}

func init() {
	registerOp("rw", func(a []string) string {
		r := runRW(parseRW(a))
		if r.local {
			return fmt.Sprintf("local %d %s", r.status, hx([]byte(r.body)))
		}
		o := r.out
		return fmt.Sprintf("fwd m=%s scheme=%s urlhost=%s path=%s q=%s host=%s hdr=%s", hx([]byte(o.Method)), hx([]byte(o.URL.Scheme)),
			hx([]byte(o.URL.Host)), hx([]byte(o.URL.Path)), hx([]byte(o.URL.RawQuery)), hx([]byte(o.Host)), hdrCanon(o.Header, nil))
	})
	// C05 oracle: what the backend receives under each injected name
	registerOp("rwspec05", func(a []string) string {
		c := parseRW(a)
		r := runRW(c)
		if r.local {
			return "local"
		}
		names := map[string]bool{}
		for _, i := range c.injs {
			names[textproto.CanonicalMIMEHeaderKey(i.name)] = true
		}
		var ks []string
		for k := range names {
			ks = append(ks, k)
		}
		sort.Strings(ks)
		var parts []string
		for _, k := range ks {
			vs := []string{}
			for _, v := range r.out.Header[k] {
				vs = append(vs, hx([]byte(v)))
			}
			parts = append(parts, hx([]byte(k))+"="+strings.Join(vs, "|"))
		}
		return "inj " + dash(strings.Join(parts, ";"))
	})
	// C09 oracle: the forwarding headers the backend receives
	registerOp("rwspec09", func(a []string) string {
		r := runRW(parseRW(a))
		if r.local {
			return "local"
		}
		g := func(k string) string {
			vs := []string{}
			for _, v := range r.out.Header[k] {
				vs = append(vs, hx([]byte(v)))
			}
			return dash(strings.Join(vs, "|"))
		}
		return fmt.Sprintf("xff=%s xfh=%s xfp=%s fwd=%s", g("X-Forwarded-For"), g("X-Forwarded-Host"), g("X-Forwarded-Proto"), g("Forwarded"))
	})
	// C15 oracle: the route
	registerOp("rwspec15", func(a []string) string {
		r := runRW(parseRW(a))
		if r.local {
			return fmt.Sprintf("local %d %s", r.status, hx([]byte(r.body)))
		}
		return "forward"
	})

	// envbool val=<hex|-> def=<0|1>: how a boolean switch such as ENABLE_KUBERNETES_PROBE is read from the environment
	registerOp("envbool", func(a []string) string {
		val, def := "-", false
		for _, t := range a {
			if strings.HasPrefix(t, "val=") {
				val = t[4:]
			} else if t == "def=1" {
				def = true
			}
		}
		const key = "VERIF_ENVBOOL_PROBE"
		if val == "-" {
			os.Unsetenv(key)
		} else {
			os.Setenv(key, string(unhx(val)))
		}
		defer os.Unsetenv(key)
		if fingerproxy.VerifEnvBool(key, def) {
			return "1"
		}
		return "0"
	})

	register("rw", "HTTPHandler.ServeHTTP in-process with scripted injectors and a recording transport", func(c *ctx) {
		for _, v := range []string{"-", "true", "false", "True", "False", "TRUE", "FALSE", "tRuE", "fAlSe", "1", "0", "yes", "no", "", " false", "false ", "falsee"} {
			for _, def := range []int{0, 1} {
				hv := "-"
				if v != "-" {
					hv = hx([]byte(v))
					if v == "" {
						hv = ""
					}
				}
				c.tag("envbool")
				c.op(fmt.Sprintf("envbool val=%s def=%d", hv, def))
			}
		}
		defNames := []string{"X-JA3-Fingerprint", "X-JA4-Fingerprint", "X-HTTP2-Fingerprint"}
		for i := 0; i < c.count; i++ {
			r := c.rng.fork()
			// injector set: default three (+ custom additions), scripted outcomes
			names := append([]string{}, defNames...)
			for j, n := 0, r.intn(3); j < n; j++ {
				names = append(names, []string{"X-My-Fingerprint", "x-custom-fp", "X-JA3-Fingerprint", "X_Under-Score", "X-Another"}[r.intn(5)])
			}
			if r.chance(1, 3) {
				// custom sets need not list the defaults first
				for j := len(names) - 1; j > 0; j-- {
					k := r.intn(j + 1)
					names[j], names[k] = names[k], names[j]
				}
				c.tag("inj:shuffled")
			}
			var inj []string
			for _, n := range names {
				switch r.intn(4) {
				case 0:
					inj = append(inj, hx([]byte(n))+":e")
					c.tag("inj:error")
				case 1:
					inj = append(inj, hx([]byte(n))+":v")
					c.tag("inj:empty")
				default:
					inj = append(inj, hx([]byte(n))+":v"+hx([]byte(fmt.Sprintf("fp%d", r.intn(1000)))))
					c.tag("inj:value")
				}
			}
			// client header lines
			var lines []string
			add := func(k, v string) { lines = append(lines, hx([]byte(k))+":"+hx([]byte(v))) }
			for j, n := 0, r.intn(6); j < n; j++ {
				add([]string{"Accept", "accept-language", "X-Custom", "cookie", "Cache-Control", "x-empty"}[r.intn(6)], []string{"a", "", "b, c", "x=y"}[r.intn(4)])
			}
			// spoof attempts under injected names in random letter case, 0..3 repetitions
			for _, n := range names {
				for rep := r.intn(4) - 1; rep > 0; rep-- {
					add(randCase(r, n), []string{"forged", "", "forged2"}[r.intn(3)])
					c.tag("spoof:line")
				}
			}
			// forwarding headers from the client
			for rep := r.intn(3); rep > 0; rep-- {
				add(randCase(r, "X-Forwarded-For"), []string{"1.1.1.1", "2.2.2.2, 3.3.3.3", ""}[r.intn(3)])
			}
			if r.chance(1, 3) {
				add(randCase(r, "X-Forwarded-Proto"), "http")
			}
			if r.chance(1, 3) {
				add(randCase(r, "X-Forwarded-Host"), "evil.test")
			}
			if r.chance(1, 3) {
				add(randCase(r, "Forwarded"), "for=6.6.6.6;proto=http")
			}
			// hop-by-hop
			if r.chance(1, 4) {
				add("Connection", []string{"close", "keep-alive, X-Custom", "Upgrade", "x-ja3-fingerprint"}[r.intn(4)])
			}
			if r.chance(1, 6) {
				add("Upgrade", "websocket")
			}
			if r.chance(1, 6) {
				add("Te", []string{"trailers", "gzip"}[r.intn(2)])
			}
			if r.chance(1, 8) {
				add([]string{"Keep-Alive", "Proxy-Authorization", "Transfer-Encoding", "Trailer", "Proxy-Connection"}[r.intn(5)], "x")
			}
			// User-Agent variants
			uaKind := r.intn(10)
			switch uaKind {
			case 0:
				c.tag("ua:absent")
			case 1:
				add("User-Agent", "")
				c.tag("ua:empty")
			case 2:
				add("User-Agent", "kube-probe/1.27")
				c.tag("ua:probe")
			case 3:
				add("User-Agent", "kube-probe/")
				c.tag("ua:probe-exact")
			case 4:
				add("User-Agent", "Mozilla kube-probe/1.0")
				c.tag("ua:infix")
			case 5:
				add("User-Agent", "Kube-Probe/1.0")
				c.tag("ua:case")
			case 6:
				add("User-Agent", "curl/8")
				add("User-Agent", "kube-probe/1.0")
				c.tag("ua:second-line")
			case 7:
				add("User-Agent", "kube-probe")
				add("X-Other", "kube-probe/1.0")
				c.tag("ua:prefix-short")
			case 8:
				add("user-agent", "kube-probe/9")
				add("User-Agent", "curl")
				c.tag("ua:probe-first-of-two")
			default:
				add("User-Agent", "curl/8.0")
				c.tag("ua:other")
			}
			ra := []string{"127.0.0.1:4711", "127.0.0.2:1", "[::1]:443", "10.1.2.3:65535", "[fe80::1%eth0]:80", "noport", "1:2:3", ""}[r.intn(8)]
			if r.chance(3, 4) {
				ra = []string{"127.0.0.1:4711", "[::1]:443", "203.0.113.9:50000"}[r.intn(3)]
			}
			to := []string{"http://backend.test:8080", "http://127.0.0.1:80", "http://b.test/base", "http://b.test/base/", "http://b.test?x=1"}[r.intn(5)]
			path := []string{"/", "/a/b", "/a b", "", "/x/", "/%41"}[r.intn(6)]
			q := []string{"", "a=1", "a=1&b=2", "q=%20x"}[r.intn(4)]
			line := fmt.Sprintf("ph=%d probe=%d tls=%d ra=%s host=%s m=%s path=%s q=%s to=%s hdr=%s inj=%s", r.intn(2), b2i(!r.chance(1, 4)), b2i(!r.chance(1, 5)),
				hx([]byte(ra)), hx([]byte([]string{"a.test", "a.test:8443", "", "UPPER.test"}[r.intn(4)])),
				hx([]byte([]string{"GET", "POST", "OPTIONS", "DELETE", "PURGE"}[r.intn(5)])), hx([]byte(path)), hx([]byte(q)), hx([]byte(to)),
				dash(strings.Join(lines, ",")), dash(strings.Join(inj, ",")))
			c.op("rw " + line)
			c.op("rwspec05 " + line)
			c.op("rwspec09 " + line)
			c.op("rwspec15 " + line)
		}
	})
}

func b2i(b bool) int {
	if b {
		return 1
	}
	return 0
}

func randCase(r *rng, s string) string {
	b := []byte(s)
	switch r.intn(4) {
	case 0:
		return strings.ToLower(s)
	case 1:
		return strings.ToUpper(s)
	case 2:
		for i := range b {
			if r.chance(1, 2) {
				if 'a' <= b[i] && b[i] <= 'z' {
					b[i] -= 32
				} else if 'A' <= b[i] && b[i] <= 'Z' {
					b[i] += 32
				}
			}
		}
		return string(b)
	}
	return s
}
