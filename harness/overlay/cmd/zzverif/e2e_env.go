//go:build verif

package main

import (
	"errors"
	"context"
	"crypto/ecdsa"
	"crypto/elliptic"
	"crypto/rand"
	"crypto/x509"
	"crypto/x509/pkix"
	"encoding/pem"
	"fmt"
	"io"
	"log"
	"math/big"
	"net"
	"net/http"
	"os"
	"path/filepath"
	"sync"
	"time"

	fingerproxy "github.com/wi1dcard/fingerproxy"
)

// genCertPair writes a fresh self-signed ECDSA certificate and key; returns PEM blocks.
func genCertPair(cn string) (certPEM, keyPEM []byte) {
	key, err := ecdsa.GenerateKey(elliptic.P256(), rand.Reader)
	if err != nil {
		panic(err)
	}
	serial, _ := rand.Int(rand.Reader, big.NewInt(1<<62))
	tpl := &x509.Certificate{
		SerialNumber: serial, Subject: pkix.Name{CommonName: cn},
		NotBefore: time.Now().Add(-time.Hour), NotAfter: time.Now().Add(24 * time.Hour),
		KeyUsage: x509.KeyUsageDigitalSignature, ExtKeyUsage: []x509.ExtKeyUsage{x509.ExtKeyUsageServerAuth},
		DNSNames: []string{"example.test", "localhost", cn}, IPAddresses: []net.IP{net.ParseIP("127.0.0.1"), net.ParseIP("::1")},
	}
	der, err := x509.CreateCertificate(rand.Reader, tpl, tpl, &key.PublicKey, key)
	if err != nil {
		panic(err)
	}
	kb, _ := x509.MarshalECPrivateKey(key)
	return pem.EncodeToMemory(&pem.Block{Type: "CERTIFICATE", Bytes: der}), pem.EncodeToMemory(&pem.Block{Type: "EC PRIVATE KEY", Bytes: kb})
}

// backendReq is what the recording backend saw.
type backendReq struct {
	Method, URI, Host, Proto string
	Header                   http.Header
	BodyLen                  int
	BodySum                  string
	Trailer                  http.Header
}

type recBackend struct {
	mu   sync.Mutex
	reqs map[string]*backendReq // by X-Verif-Tag
	n    int
	ln   net.Listener
	srv  *http.Server
	// respond lets a scenario script the response (default: 200, "ok:<tag>")
	respond func(tag string, w http.ResponseWriter, r *http.Request, body []byte)
}

func newBackend() *recBackend {
	b := &recBackend{reqs: map[string]*backendReq{}}
	ln, err := net.Listen("tcp", "127.0.0.1:0")
	if err != nil {
		panic(err)
	}
	b.ln = ln
	b.srv = &http.Server{Handler: http.HandlerFunc(b.handle)}
	go b.srv.Serve(ln)
	return b
}

func (b *recBackend) handle(w http.ResponseWriter, r *http.Request) {
	var body []byte
	discarded := 0
	if r.Header.Get("X-Verif-Early") == "1" {
		// answer before the request body has ended (the client keeps its side of the exchange open); without full duplex
		// net/http's HTTP/1 server would first try to read the rest of the request body
		http.NewResponseController(w).EnableFullDuplex()
	} else if r.Header.Get("X-Verif-Discard") == "1" {
		n, _ := io.Copy(io.Discard, r.Body) // uploads far larger than memory should hold
		discarded = int(n)
	} else {
		body, _ = io.ReadAll(r.Body)
	}
	tag := r.Header.Get("X-Verif-Tag")
	br := &backendReq{Method: r.Method, URI: r.RequestURI, Host: r.Host, Proto: r.Proto, Header: r.Header.Clone(), BodyLen: len(body) + discarded, BodySum: sum(body), Trailer: r.Trailer.Clone()}
	b.mu.Lock()
	b.n++
	if tag == "" {
		tag = fmt.Sprintf("untagged-%d", b.n)
	}
	b.reqs[tag] = br
	respond := b.respond
	b.mu.Unlock()
	if respond != nil {
		respond(tag, w, r, body)
		return
	}
	w.Header().Set("X-Backend-Tag", tag)
	w.WriteHeader(200)
	io.WriteString(w, "ok:"+tag)
}

func (b *recBackend) get(tag string) *backendReq {
	b.mu.Lock()
	defer b.mu.Unlock()
	return b.reqs[tag]
}

func (b *recBackend) count() int {
	b.mu.Lock()
	defer b.mu.Unlock()
	return b.n
}

func (b *recBackend) close() { b.srv.Close() }

// e2eEnv: the real proxy (root-package wiring) on loopback TCP in front of the recording backend.
type e2eEnv struct {
	opts     fingerproxy.VerifOptions
	stack    *fingerproxy.VerifStack
	backend  *recBackend
	ln       net.Listener
	addr     string
	cancel   context.CancelFunc
	ctx      context.Context
	served   chan error
	dir      string
	certPEM  []byte
	accepted *countingListener
}

// countingListener wraps the accepted conns so that Close() calls are observable (C11, C16).
type countingListener struct {
	net.Listener
	mu       sync.Mutex
	accepted int
	closed   int
}

type countedConn struct {
	net.Conn
	l    *countingListener
	once sync.Once
}

func (c *countedConn) Close() error {
	c.once.Do(func() { c.l.mu.Lock(); c.l.closed++; c.l.mu.Unlock() })
	return c.Conn.Close()
}

// the accepted connection is a *net.TCPConn in production: keep its optional interfaces visible through the wrapper
func (c *countedConn) CloseWrite() error {
	if cw, ok := c.Conn.(interface{ CloseWrite() error }); ok {
		return cw.CloseWrite()
	}
	return errors.New("verif: CloseWrite not supported by the underlying connection")
}

func (c *countedConn) CloseRead() error {
	if cr, ok := c.Conn.(interface{ CloseRead() error }); ok {
		return cr.CloseRead()
	}
	return errors.New("verif: CloseRead not supported by the underlying connection")
}

func (l *countingListener) Accept() (net.Conn, error) {
	c, err := l.Listener.Accept()
	if err != nil {
		return nil, err
	}
	l.mu.Lock()
	l.accepted++
	l.mu.Unlock()
	return &countedConn{Conn: c, l: l}, nil
}

func (l *countingListener) stats() (int, int) {
	l.mu.Lock()
	defer l.mu.Unlock()
	return l.accepted, l.closed
}

func init() {
	// the root package's loggers write to os.Stderr directly; answers go to files, not to the log
	for _, l := range []*log.Logger{fingerproxy.ProxyServerLog, fingerproxy.HTTPServerLog, fingerproxy.PrometheusLog,
		fingerproxy.ReverseProxyLog, fingerproxy.FingerprintLog, fingerproxy.CertWatcherLog, fingerproxy.DefaultLog} {
		l.SetOutput(io.Discard)
	}
}

// e2eHookCertLayout lets a scenario lay out the certificate files itself (C14)
var e2eHookCertLayout func(dir string) (certPath, keyPath string)

var e2eTmpRoot = func() string {
	d := os.Getenv("VERIF_TMP")
	if d == "" {
		d = "/verif/build/tmp"
	}
	os.MkdirAll(d, 0o755)
	return d
}()

func defaultE2EOpts() fingerproxy.VerifOptions {
	return fingerproxy.VerifOptions{EnableProbe: true, MaxH2PriorityFrames: 10000, FlushInterval: "100ms",
		IdleTimeout: "180s", ReadTimeout: "60s", WriteTimeout: "60s", TLSHandshakeTimeout: "10s"}
}

func newE2EEnv(o fingerproxy.VerifOptions) *e2eEnv {
	e := &e2eEnv{opts: o, backend: newBackend(), served: make(chan error, 1)}
	dir, err := os.MkdirTemp(e2eTmpRoot, "e2e-")
	if err != nil {
		panic(err)
	}
	e.dir = dir
	cert, key := genCertPair("example.test")
	e.certPEM = cert
	o.CertFile, o.KeyFile = filepath.Join(dir, "tls.crt"), filepath.Join(dir, "tls.key")
	if e2eHookCertLayout != nil {
		o.CertFile, o.KeyFile = e2eHookCertLayout(dir)
	} else {
		os.WriteFile(o.CertFile, cert, 0o600)
		os.WriteFile(o.KeyFile, key, 0o600)
	}
	o.ForwardURL = "http://" + e.backend.ln.Addr().String()
	e.ctx, e.cancel = context.WithCancel(context.Background())
	st, err := fingerproxy.VerifBuild(e.ctx, o)
	if err != nil {
		panic(err)
	}
	e.stack = st
	if e2eHookStack != nil {
		e2eHookStack(st)
	}
	ln, err := net.Listen("tcp", "127.0.0.1:0")
	if err != nil {
		panic(err)
	}
	if e2eHookListener != nil {
		ln = e2eHookListener(e, ln)
	}
	e.accepted = &countingListener{Listener: ln}
	e.ln = e.accepted
	e.addr = ln.Addr().String()
	if e2eCancelBeforeServe {
		e.cancel() // early cancellation: before Serve is even called
	}
	go func() { e.served <- st.Server.Serve(e.ln) }()
	go st.CertWatcher.Start(e.ctx)
	return e
}

func (e *e2eEnv) close() {
	e.cancel()
	select {
	case <-e.served:
	case <-time.After(5 * time.Second):
	}
	e.backend.close()
	os.RemoveAll(e.dir)
}
