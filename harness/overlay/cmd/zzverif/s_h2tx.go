//go:build verif

package main

import (
	"fmt"
	"strings"
)

func init() {
	register("h2tx", "C12: the client transport's body writer under schedules of body production, WINDOW_UPDATE and SETTINGS (window / frame size) changes", func(c *ctx) {
		c.deferred = true
		for i := 0; i < c.count; i++ {
			r := c.rng.fork()
			var greet []string
			if r.chance(1, 2) {
				greet = append(greet, fmt.Sprintf("5.%d", []int{16384, 16385, 32768, 65536, 1 << 20, 16777215}[r.intn(6)]))
			}
			if r.chance(1, 2) {
				greet = append(greet, fmt.Sprintf("4.%d", []int{0, 1, 100, 1000, 16384, 65535, 100000, 1 << 20}[r.intn(8)]))
			}
			var toks []string
			ended := false
			for j, n := 0, r.rangeI(3, 30); j < n; j++ {
				switch r.intn(10) {
				case 0, 1, 2, 3:
					if !ended {
						toks = append(toks, fmt.Sprintf("B:%d", []int{1, 10, 1000, 5000, 16384, 16385, 40000, 70000, 200000}[r.intn(9)]))
					}
				case 4, 5:
					toks = append(toks, fmt.Sprintf("W:%d.%d", r.intn(2), []int{1, 100, 5000, 16384, 65535, 1 << 20}[r.intn(6)]))
				case 6:
					toks = append(toks, fmt.Sprintf("S:4.%d", []int{0, 1, 500, 5500, 65535, 100000, 1 << 20}[r.intn(7)]))
				case 7:
					toks = append(toks, fmt.Sprintf("S:5.%d", []int{16384, 20000, 65536, 1 << 20}[r.intn(4)]))
				case 8:
					if !ended && r.chance(1, 2) {
						toks = append(toks, "E")
						ended = true
					}
				default:
					if r.chance(1, 3) {
						// stream-level credit for a stream the client is not sending on (finished long ago / never opened): legal,
						// and it must not turn into connection-level credit
						toks = append(toks, fmt.Sprintf("W:%d.%d", []int{3, 5, 99}[r.intn(3)], []int{1, 1000, 100000}[r.intn(3)]))
					} else {
						toks = append(toks, fmt.Sprintf("W:1.%d", []int{1, 1000, 100000}[r.intn(3)]))
					}
				}
			}
			if !ended {
				toks = append(toks, "E")
			}
			// open everything so that what is still queued can flow
			toks = append(toks, "S:4.1048576", "W:0.1048576", "W:0.1048576")
			c.tag("tokens:" + bucket(len(toks)))
			g := "-"
			if len(greet) > 0 {
				g = strings.Join(greet, ";")
			}
			c.op(fmt.Sprintf("h2tx greet=%s ev=%s", g, strings.Join(toks, ",")))
		}
	})
}
