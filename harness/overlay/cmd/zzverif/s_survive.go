//go:build verif

package main

import (
	"bytes"
	"context"
	"runtime"
	"sync"
	"crypto/tls"
	"errors"
	"fmt"
	"io"
	"net"
	"net/http"
	"os"
	"os/exec"
	"strconv"
	"strings"
	"time"

	fingerproxy "github.com/wi1dcard/fingerproxy"
	"github.com/wi1dcard/fingerproxy/pkg/http2"
	"github.com/wi1dcard/fingerproxy/pkg/reverseproxy"
	xhttp2 "golang.org/x/net/http2"
	"golang.org/x/net/http2/hpack"
)

// verConn rewrites the legacy_record_version of the first TLS record the client writes (crypto/tls ignores that
// field on the first record, so the handshake completes whatever it says).
type verConn struct {
	net.Conn
	ver  uint16
	done bool
}

func (c *verConn) Write(b []byte) (int, error) {
	if !c.done && len(b) >= 5 && b[0] == 22 {
		c.done = true
		b = append([]byte{}, b...)
		b[1], b[2] = byte(c.ver>>8), byte(c.ver)
	}
	return c.Conn.Write(b)
}

// zeroReader yields n zero bytes
type zeroReader struct{ n int64 }

func (z *zeroReader) Read(b []byte) (int, error) {
	if z.n <= 0 {
		return 0, io.EOF
	}
	if int64(len(b)) > z.n {
		b = b[:z.n]
	}
	for i := range b {
		b[i] = 0
	}
	z.n -= int64(len(b))
	return len(b), nil
}

// memoryWatchdog ends the process the way the kernel's OOM killer eventually would when the heap grows with the
// number of bytes a client sends: the scenarios stream at most `bound` bytes of live data through the process.
func memoryWatchdog(bound uint64) {
	go func() {
		var ms runtime.MemStats
		for {
			time.Sleep(10 * time.Millisecond)
			runtime.ReadMemStats(&ms)
			if ms.HeapAlloc > bound {
				fmt.Fprintf(os.Stderr, "fatal error: out of memory (verif bound): heap=%dMiB grows with the bytes one client sent\n", ms.HeapAlloc>>20)
				os.Exit(3)
			}
		}
	}()
}

// ---- C10: every scenario runs in a CHILD process; the parent observes whether the process survived and
// whether a control client was served afterwards.

type panicInjector struct{}

func (panicInjector) GetHeaderName() string { return "X-Panic" }
func (panicInjector) GetHeaderValue(r *http.Request) (string, error) {
	if r.URL.Path == "/control" {
		return "", nil
	}
	panic("verif: injected panic in header injector")
}

// faultConn fails the k-th I/O operation of a server-side connection.
type faultConn struct {
	net.Conn
	n    int
	at   int
	mode string
}

func (f *faultConn) tick(kind string) bool {
	f.n++
	return f.n == f.at && (f.mode == kind || f.mode == "any")
}
func (f *faultConn) Read(b []byte) (int, error) {
	if f.tick("read") {
		return 0, errors.New("verif: injected read error")
	}
	return f.Conn.Read(b)
}
func (f *faultConn) Write(b []byte) (int, error) {
	if f.tick("write") {
		return 0, errors.New("verif: injected write error")
	}
	return f.Conn.Write(b)
}
func (f *faultConn) SetDeadline(t time.Time) error {
	if f.tick("deadline") {
		return errors.New("verif: injected deadline error")
	}
	return f.Conn.SetDeadline(t)
}
func (f *faultConn) SetReadDeadline(t time.Time) error {
	if f.tick("deadline") {
		return errors.New("verif: injected deadline error")
	}
	return f.Conn.SetReadDeadline(t)
}
func (f *faultConn) SetWriteDeadline(t time.Time) error {
	if f.tick("deadline") {
		return errors.New("verif: injected deadline error")
	}
	return f.Conn.SetWriteDeadline(t)
}

type faultListener struct {
	net.Listener
	first bool
	at    int
	mode  string
}

func (l *faultListener) Accept() (net.Conn, error) {
	c, err := l.Listener.Accept()
	if err != nil {
		return nil, err
	}
	if !l.first {
		l.first = true
		return &faultConn{Conn: c, at: l.at, mode: l.mode}, nil
	}
	return c, nil
}

// cutConn closes (FIN or RST) after the client has written `at` bytes.
type cutConn struct {
	net.Conn
	at, n int
	rst   bool
}

func (c *cutConn) Write(b []byte) (int, error) {
	if c.n+len(b) >= c.at {
		k := c.at - c.n
		if k > 0 {
			c.Conn.Write(b[:k])
		}
		c.n = c.at
		if c.rst {
			if tc, ok := c.Conn.(*net.TCPConn); ok {
				tc.SetLinger(0)
			}
		}
		c.Conn.Close()
		return k, errors.New("verif: scripted client abort")
	}
	c.n += len(b)
	return c.Conn.Write(b)
}

func controlClient(e *e2eEnv) string {
	for _, alpn := range [][]string{{"http/1.1"}, {"h2"}} {
		conn, _, neg, err := dialProxy(e, clientCfg{kind: "go", sni: "example.test", alpn: alpn, peer: "127.0.0.1"})
		if err != nil {
			return "fail:dial:" + strings.ReplaceAll(err.Error(), " ", "_")
		}
		req := []e2eReq{{method: "GET", path: "/control", host: "example.test", order: "mspa", tag: "control-" + alpn[0]}}
		st := 0
		if neg == "h2" {
			m, err := h2Exchange(conn, []string{"S:", "H:1.1.-.0.0"}, req)
			if err != nil {
				conn.Close()
				return "fail:h2:" + strings.ReplaceAll(err.Error(), " ", "_")
			}
			st = m[1].status
		} else {
			rs := h1Exchange(conn, req)
			if len(rs) == 0 || rs[0].err != "" {
				conn.Close()
				return "fail:h1"
			}
			st = rs[0].status
		}
		conn.Close()
		if st != 200 || e.backend.get("control-"+alpn[0]) == nil {
			return fmt.Sprintf("fail:status=%d", st)
		}
	}
	return "ok"
}

// surviveChild runs one scenario in THIS process (the child) and prints the outcome.
func surviveChild(a []string) string {
	kv := map[string]string{}
	for _, t := range a {
		if i := strings.IndexByte(t, '='); i > 0 {
			kv[t[:i]] = t[i+1:]
		}
	}
	o := defaultE2EOpts()
	o.TLSHandshakeTimeout = "500ms"
	o.IdleTimeout = "2s"
	if v := kv["rto"]; v != "" {
		o.ReadTimeout = v + "ms"
	}
	if kv["kind"] == "panic" && kv["site"] == "injector" {
		fingerproxy.GetHeaderInjectors = func() []reverseproxy.HeaderInjector {
			return append(fingerproxy.DefaultHeaderInjectors(), panicInjector{})
		}
	}
	env := newE2EEnvWith(o, func(e *e2eEnv, ln net.Listener) net.Listener {
		if kv["kind"] == "fault" {
			at, _ := strconv.Atoi(kv["at"])
			return &faultListener{Listener: ln, at: at, mode: kv["mode"]}
		}
		return ln
	}, func(st *fingerproxy.VerifStack) {
		if kv["kind"] != "panic" {
			return
		}
		armed := true
		boom := func(where string) {
			if armed {
				armed = false // only the first (scenario) connection is hit; the control client must pass
				panic("verif: injected panic in " + where)
			}
		}
		switch kv["site"] {
		case "getcert":
			orig := st.Server.TLSConfig.GetCertificate
			st.Server.TLSConfig.GetCertificate = func(h *tls.ClientHelloInfo) (*tls.Certificate, error) {
				boom("GetCertificate")
				return orig(h)
			}
		case "getconfig":
			st.Server.TLSConfig.GetConfigForClient = func(*tls.ClientHelloInfo) (*tls.Config, error) {
				boom("GetConfigForClient")
				return nil, nil
			}
		case "verifyconn":
			st.Server.TLSConfig.VerifyConnection = func(tls.ConnectionState) error {
				boom("VerifyConnection")
				return nil
			}
		case "connstate":
			st.Server.HTTPServer.ConnState = func(c net.Conn, s http.ConnState) {
				if s == http.StateActive {
					boom("ConnState")
				}
			}
		case "handler":
			orig := st.Server.HTTPServer.Handler
			st.Server.HTTPServer.Handler = http.HandlerFunc(func(w http.ResponseWriter, r *http.Request) {
				if r.URL.Path != "/control" {
					boom("handler")
				}
				orig.ServeHTTP(w, r)
			})
		}
	})
	defer env.close()
	proto := kv["proto"]
	alpn := []string{"http/1.1"}
	if proto == "h2" {
		alpn = []string{"h2"}
	}
	req := []e2eReq{{method: "POST", path: "/x", host: "example.test", order: "mspa", tag: "scenario", body: bytes.Repeat([]byte("b"), 300), hasUA: true, ua: "verif"}}
	frames := []string{"S:3.100", "W:0.1000", "P:3.0.0.10", "H:1.1.-.0.1"}
	first := "-"
	switch kv["kind"] {
	case "panic", "fault":
		conn, _, neg, err := dialProxy(env, clientCfg{kind: "go", sni: "example.test", alpn: alpn, peer: "127.0.0.1"})
		if err != nil {
			first = "handshake-failed"
			break
		}
		conn.SetDeadline(time.Now().Add(3 * time.Second))
		if neg == "h2" {
			_, err = h2Exchange(conn, frames, req)
		} else {
			rs := h1Exchange(conn, req)
			if len(rs) > 0 && rs[0].err != "" {
				err = errors.New(rs[0].err)
			}
		}
		first = "served"
		if err != nil {
			first = "failed"
		}
		conn.Close()
	case "cut":
		at, _ := strconv.Atoi(kv["at"])
		d := net.Dialer{Timeout: 3 * time.Second}
		raw, err := d.Dial("tcp", env.addr)
		if err != nil {
			break
		}
		cc := &cutConn{Conn: raw, at: at, rst: kv["rst"] == "1"}
		tc := tls.Client(cc, &tls.Config{InsecureSkipVerify: true, NextProtos: alpn})
		tc.SetDeadline(time.Now().Add(3 * time.Second))
		if err := tc.Handshake(); err == nil {
			if tc.ConnectionState().NegotiatedProtocol == "h2" {
				h2Exchange(tc, frames, req)
			} else {
				h1Exchange(tc, req)
			}
		}
		first = fmt.Sprintf("wrote=%d", cc.n)
		raw.Close()
	case "bytes":
		c, err := net.DialTimeout("tcp", env.addr, 3*time.Second)
		if err == nil {
			c.Write(unhx(kv["hex"]))
			c.SetReadDeadline(time.Now().Add(1500 * time.Millisecond))
			io.ReadAll(c)
			c.Close()
		}
	case "h2bytes":
		// one connection per comma-separated blob
		blobs := strings.Split(kv["hex"], ",")
		sem := make(chan struct{}, 16)
		var wg sync.WaitGroup
		for _, hb := range blobs {
			wg.Add(1)
			sem <- struct{}{}
			go func(hb string) {
				defer func() { <-sem; wg.Done() }()
				conn, _, _, err := dialProxy(env, clientCfg{kind: "go", sni: "example.test", alpn: []string{"h2"}, peer: "127.0.0.1"})
				if err == nil {
					if kv["pre"] != "0" {
						io.WriteString(conn, http2.ClientPreface)
					}
					conn.Write(unhx(hb))
					d := 1500 * time.Millisecond
					if len(blobs) > 1 {
						d = 120 * time.Millisecond
					}
					conn.SetReadDeadline(time.Now().Add(d))
					io.ReadAll(conn)
					conn.Close()
				}
			}(hb)
		}
		wg.Wait()
	case "upload":
		// one client uploads mib MiB (streamed to the backend, which discards it); its ClientHello carries the given
		// legacy_record_version. The process must neither die nor keep what it was sent.
		mib, _ := strconv.Atoi(kv["mib"])
		ver, _ := strconv.ParseUint(kv["recver"], 16, 16)
		memoryWatchdog(64 << 20)
		dial := func() (net.Conn, error) {
			raw, err := (&net.Dialer{Timeout: 3 * time.Second}).Dial("tcp", env.addr)
			if err != nil {
				return nil, err
			}
			tc := tls.Client(&verConn{Conn: raw, ver: uint16(ver)}, &tls.Config{InsecureSkipVerify: true, NextProtos: alpn})
			tc.SetDeadline(time.Now().Add(25 * time.Second))
			if err := tc.Handshake(); err != nil {
				raw.Close()
				return nil, err
			}
			return tc, nil
		}
		var rt http.RoundTripper
		if proto == "h2" {
			rt = &xhttp2.Transport{DialTLSContext: func(ctx context.Context, network, addr string, cfg *tls.Config) (net.Conn, error) { return dial() }}
		} else {
			rt = &http.Transport{DialTLSContext: func(ctx context.Context, network, addr string) (net.Conn, error) { return dial() }}
		}
		rq, _ := http.NewRequest("POST", "https://example.test/upload", &zeroReader{n: int64(mib) << 20})
		rq.ContentLength = int64(mib) << 20
		rq.Header.Set("X-Verif-Tag", "upload")
		rq.Header.Set("X-Verif-Discard", "1")
		resp, err := rt.RoundTrip(rq)
		first = "refused"
		if err == nil {
			io.Copy(io.Discard, resp.Body)
			resp.Body.Close()
			first = fmt.Sprintf("status=%d", resp.StatusCode)
		}
		if c, ok := rt.(interface{ CloseIdleConnections() }); ok {
			c.CloseIdleConnections()
		}
	case "h2parallel":
		// ONE HTTP/2 connection: many uploads in small DATA frames while the same client keeps opening and finishing other
		// streams (ordinary multiplexed traffic): the handlers' goroutines, the transport's body readers and the serve loop
		// all touch the connection's state
		t := &xhttp2.Transport{TLSClientConfig: &tls.Config{InsecureSkipVerify: true, NextProtos: []string{"h2"}},
			DialTLSContext: func(ctx context.Context, network, addr string, cfg *tls.Config) (net.Conn, error) {
				return tls.DialWithDialer(&net.Dialer{Timeout: 3 * time.Second}, "tcp", env.addr, cfg)
			}}
		stop := time.Now().Add(1500 * time.Millisecond)
		var wg sync.WaitGroup
		for g := 0; g < 24; g++ {
			wg.Add(2)
			go func() {
				defer wg.Done()
				for time.Now().Before(stop) {
					pr, pw := io.Pipe()
					go func() {
						for k := 0; k < 64; k++ {
							if _, err := pw.Write(make([]byte, 700)); err != nil {
								break
							}
						}
						pw.Close()
					}()
					rq, _ := http.NewRequest("POST", "https://example.test/up", pr)
					rq.Header.Set("X-Verif-Discard", "1")
					if resp, err := t.RoundTrip(rq); err == nil {
						io.Copy(io.Discard, resp.Body)
						resp.Body.Close()
					} else {
						pr.Close()
						time.Sleep(20 * time.Millisecond)
					}
				}
			}()
			go func() {
				defer wg.Done()
				for time.Now().Before(stop) {
					rq, _ := http.NewRequest("GET", "https://example.test/tiny", nil)
					if resp, err := t.RoundTrip(rq); err == nil {
						io.Copy(io.Discard, resp.Body)
						resp.Body.Close()
					} else {
						time.Sleep(20 * time.Millisecond)
					}
				}
			}()
		}
		wg.Wait()
		t.CloseIdleConnections()
		first = "multiplexed"
	case "rstinflight":
		// connection A asks for a large response, stops reading (a DATA frame write of the proxy blocks in flight), resets the
		// stream and then drops the connection. Requests on OTHER connections must be served completely afterwards.
		env.backend.mu.Lock()
		env.backend.respond = func(tag string, w http.ResponseWriter, r *http.Request, body []byte) {
			if tag != "big" {
				w.Header().Set("X-Backend-Tag", tag)
				w.WriteHeader(200)
				io.WriteString(w, "ok:"+tag)
				return
			}
			w.WriteHeader(200)
			chunk := make([]byte, 16<<10)
			for i := 0; i < 2048; i++ { // 32 MiB
				if _, err := w.Write(chunk); err != nil {
					return
				}
				w.(http.Flusher).Flush()
			}
		}
		env.backend.mu.Unlock()
		raw, err := (&net.Dialer{Timeout: 3 * time.Second}).Dial("tcp", env.addr)
		if err == nil {
			tc := tls.Client(raw, &tls.Config{InsecureSkipVerify: true, NextProtos: []string{"h2"}})
			tc.SetDeadline(time.Now().Add(10 * time.Second))
			if err := tc.Handshake(); err == nil {
				io.WriteString(tc, http2.ClientPreface)
				fr := http2.NewFramer(tc, tc)
				fr.WriteSettings(http2.Setting{ID: http2.SettingInitialWindowSize, Val: 1<<31 - 1})
				fr.WriteWindowUpdate(0, 1<<31-1-65535)
				var hb bytes.Buffer
				enc := hpack.NewEncoder(&hb)
				for _, f := range [][2]string{{":method", "GET"}, {":scheme", "https"}, {":path", "/big"}, {":authority", "example.test"}, {"x-verif-tag", "big"}} {
					enc.WriteField(hpack.HeaderField{Name: f[0], Value: f[1]})
				}
				fr.WriteHeaders(http2.HeadersFrameParam{StreamID: 1, BlockFragment: hb.Bytes(), EndHeaders: true, EndStream: true})
				time.Sleep(400 * time.Millisecond) // never reading: the proxy's socket buffers fill, one frame write blocks
				fr.WriteRSTStream(1, http2.ErrCodeCancel)
				time.Sleep(200 * time.Millisecond)
				first = "reset-in-flight"
			}
			if t, ok := raw.(*net.TCPConn); ok {
				t.SetLinger(0)
			}
			raw.Close()
			time.Sleep(100 * time.Millisecond)
		}
		victims, _ := strconv.Atoi(kv["victims"])
		for i := 0; i < victims; i++ {
			if r := controlClient(env); r != "ok" {
				return fmt.Sprintf("first=%s control=%s@victim%d", first, r, i)
			}
		}
	case "h2stall":
		// the client advertises a zero stream window, so the response body cannot be sent and the stream stays open
		// until the read timeout fires; body=0: request without body (END_STREAM on HEADERS), body=1: body never sent
		conn, _, _, err := dialProxy(env, clientCfg{kind: "go", sni: "example.test", alpn: []string{"h2"}, peer: "127.0.0.1"})
		if err == nil {
			io.WriteString(conn, http2.ClientPreface)
			fr := http2.NewFramer(conn, conn)
			fr.WriteSettings(http2.Setting{ID: http2.SettingInitialWindowSize, Val: 0})
			var hb bytes.Buffer
			enc := hpack.NewEncoder(&hb)
			method := "GET"
			if kv["body"] == "1" {
				method = "POST"
			}
			for _, f := range [][2]string{{":method", method}, {":scheme", "https"}, {":path", "/stall"}, {":authority", "example.test"}, {"x-verif-tag", "stall"}} {
				enc.WriteField(hpack.HeaderField{Name: f[0], Value: f[1]})
			}
			fr.WriteHeaders(http2.HeadersFrameParam{StreamID: 1, BlockFragment: hb.Bytes(), EndHeaders: true, EndStream: kv["body"] != "1"})
			conn.SetReadDeadline(time.Now().Add(1200 * time.Millisecond))
			io.ReadAll(conn)
			conn.Close()
		}
	}
	return "first=" + first + " control=" + controlClient(env)
}

func newE2EEnvWith(o fingerproxy.VerifOptions, wrapLn func(*e2eEnv, net.Listener) net.Listener, tweak func(*fingerproxy.VerifStack)) *e2eEnv {
	e2eHookListener, e2eHookStack = wrapLn, tweak
	defer func() { e2eHookListener, e2eHookStack = nil, nil }()
	return newE2EEnv(o)
}

var (
	e2eHookListener func(*e2eEnv, net.Listener) net.Listener
	e2eHookStack    func(*fingerproxy.VerifStack)
)

func init() {
	// survive <scenario>: run in a child process, report whether it survived
	registerOp("survive", func(a []string) string {
		cmd := exec.Command(os.Args[0], append([]string{"child", "survive"}, a...)...)
		cmd.Env = append(os.Environ(), "GOMEMLIMIT=2GiB", "GOTRACEBACK=single")
		for _, t := range a {
			if strings.HasPrefix(t, "gmp=") {
				// a scenario about a hand-off through a process-wide pool is only deterministic on one P
				cmd.Env = append(cmd.Env, "GOMAXPROCS="+t[4:])
			}
		}
		var out, errb bytes.Buffer
		cmd.Stdout, cmd.Stderr = &out, &errb
		done := make(chan error, 1)
		cmd.Start()
		go func() { done <- cmd.Wait() }()
		select {
		case err := <-done:
			if err != nil {
				msg := ""
				for _, l := range strings.Split(errb.String(), "\n") {
					if strings.HasPrefix(l, "panic:") || strings.HasPrefix(l, "fatal error:") {
						msg = strings.ReplaceAll(l, " ", "_")
						break
					}
				}
				return "alive=0 " + msg
			}
			return "alive=1 " + lastField(strings.TrimSpace(out.String()), "control=")
		case <-time.After(40 * time.Second):
			cmd.Process.Kill()
			return "alive=0 hang"
		}
	})

	register("survive", "C10: panics at user callbacks, client aborts at byte offsets, hostile bytes, I/O faults — each in a child process", func(c *ctx) {
		for _, site := range []string{"getcert", "getconfig", "verifyconn", "connstate", "handler", "injector"} {
			for _, proto := range []string{"h1", "h2"} {
				c.tag("kind:panic")
				c.op(fmt.Sprintf("survive kind=panic site=%s proto=%s", site, proto))
			}
		}
		// stalls with a short read timeout (timer paths), with and without a request body
		for _, body := range []int{0, 1} {
			c.tag("kind:h2stall")
			c.op(fmt.Sprintf("survive kind=h2stall rto=300 body=%d", body))
		}
		// uploads much larger than any buffer, with every legacy_record_version around the accepted range on the hello
		for _, proto := range []string{"h1", "h2"} {
			for _, ver := range []string{"0301", "0303", "0300", "0305", "0200", "ffff"} {
				c.tag("kind:upload")
				c.op(fmt.Sprintf("survive kind=upload proto=%s recver=%s mib=160", proto, ver))
			}
		}
		// a silent client: nothing at all, or a fragment of a record header, until the handshake timeout cuts it
		for _, hexs := range []string{"", "16", "1603", "160301", "16030100"} {
			c.tag("kind:silent-until-handshake-timeout")
			c.op("survive kind=bytes hex=" + hexs)
		}
		// one multiplexed HTTP/2 connection under load from many goroutines
		for i := 0; i < 2; i++ {
			c.tag("kind:h2parallel")
			c.op("survive kind=h2parallel")
		}
		// a stream reset while one of its DATA frames is being written, then unrelated connections
		for _, gmp := range []string{"1", "1", "4"} {
			c.tag("kind:rstinflight")
			c.op(fmt.Sprintf("survive kind=rstinflight victims=12 gmp=%s", gmp))
		}
		// what a client that negotiated h2 sends INSTEAD of the connection preface: at least 24 octets with and without
		// CR LF, an HTTP/1 request line (short, long), a preface with one octet changed or cut short and continued with
		// something else, LF-only line ends, zero octets, random octets
		{
			pf := []byte(http2.ClientPreface)
			var pre []string
			add := func(b []byte) { pre = append(pre, hx(b)) }
			add(make([]byte, 24))
			add(make([]byte, 60))
			add([]byte("GET / HTTP/1.1\r\nHost: example.test\r\n\r\n"))
			add([]byte("GET /a/rather/long/path/that/fills/the/greeting HTTP/1.1\r\nHost: example.test\r\n\r\n"))
			add([]byte("PRI * HTTP/2.0\n\nSM\n\n0123456789abcdef"))
			add(bytes.Repeat([]byte("\r"), 30))
			add(bytes.Repeat([]byte("\n"), 30))
			for _, k := range []int{0, 1, 13, 14, 15, 16, 22, 23} {
				m := append([]byte{}, pf...)
				m[k] ^= 0x20
				add(append(m, 0, 0, 0, 4, 0, 0, 0, 0, 0))
				add(append(append([]byte{}, pf[:k]...), bytes.Repeat([]byte{'x'}, 40)...))
			}
			rr := c.rng.fork()
			for k := 0; k < 8; k++ {
				add(rr.bytes(rr.rangeI(24, 80)))
			}
			c.tag("kind:h2-instead-of-preface")
			c.op("survive kind=h2bytes pre=0 hex=" + strings.Join(pre, ","))
		}
		// every padded / prioritised frame layout (DATA, HEADERS, PUSH_PROMISE) around the padding / priority boundaries,
		// one connection each
		var blobs []string
		for _, tf := range [][2]byte{{1, 0x08}, {1, 0x20}, {1, 0x28}, {1, 0x0c}, {1, 0x24}, {1, 0x2c}, {1, 0x2d}, {1, 0x09},
			{0, 0x08}, {0, 0x09}, {0, 0x00}, {5, 0x08}, {5, 0x0c}, {5, 0x04}, {9, 0x04}, {9, 0x0c}} {
			typ, fl := tf[0], tf[1]
			for _, n := range []int{0, 1, 4, 5, 6, 7, 12, 17} {
				pads := []int{0, 1, n - 7, n - 6, n - 5, n - 2, n - 1, n, n + 1, 255}
				for _, pad := range pads {
					if pad < 0 || pad > 255 {
						continue
					}
					payload := make([]byte, n)
					if n > 0 {
						payload[0] = byte(pad)
					}
					fr := []byte{byte(n >> 16), byte(n >> 8), byte(n), typ, fl, 0, 0, 0, 1}
					blobs = append(blobs, hx(append(append([]byte{0, 0, 0, 4, 0, 0, 0, 0, 0}, fr...), payload...)))
				}
			}
		}
		// FRAME SEQUENCES around an open header block: HEADERS without END_HEADERS (alone, or continued by one CONTINUATION
		// that does not end the block either), then a frame of EVERY type octet the reader distinguishes — the ten known
		// types, extension types just above them, 0xff — on the same stream, another stream, stream 0, with a payload of
		// the length that type requires (so that the frame itself parses) or none
		{
			fr := func(typ, fl byte, sid uint32, payload []byte) []byte {
				n := len(payload)
				return append([]byte{byte(n >> 16), byte(n >> 8), byte(n), typ, fl, byte(sid >> 24), byte(sid >> 16), byte(sid >> 8), byte(sid)}, payload...)
			}
			settings := fr(4, 0, 0, nil)
			okLen := map[byte]int{0: 3, 1: 1, 2: 5, 3: 4, 4: 6, 5: 5, 6: 8, 7: 8, 8: 4, 9: 1}
			for _, open := range [][]byte{
				fr(1, 0x00, 1, []byte{0x82}),                                  // HEADERS, no END_HEADERS
				append(fr(1, 0x01, 1, []byte{0x82}), fr(9, 0, 1, []byte{0x86})...), // HEADERS(END_STREAM) + CONTINUATION, block still open
			} {
				for _, typ := range []byte{0, 1, 2, 3, 4, 5, 6, 7, 8, 9, 0x0a, 0x0b, 0x0c, 0x10, 0x20, 0x7f, 0xfe, 0xff} {
					for _, sid := range []uint32{1, 3, 0} {
						for _, withPayload := range []bool{true, false} {
							n := 0
							if withPayload {
								n = okLen[typ]
								if typ > 9 {
									n = 4
								}
							}
							pl := make([]byte, n)
							if typ == 8 && n == 4 {
								pl[3] = 1
							}
							fl := byte(0)
							if typ == 9 {
								continue // (a CONTINUATION is what is legal here; covered by the layouts above)
							}
							b := append(append(append([]byte{}, settings...), open...), fr(typ, fl, sid, pl)...)
							// close the block properly afterwards: a server that swallowed the frame must still cope with the rest
							b = append(b, fr(9, 0x04, 1, []byte{0x84})...)
							blobs = append(blobs, hx(b))
						}
					}
				}
			}
		}
		for i := 0; i < len(blobs); i += 40 {
			j := i + 40
			if j > len(blobs) {
				j = len(blobs)
			}
			c.tag("kind:h2-padded-frame-layouts")
			c.op("survive kind=h2bytes hex=" + strings.Join(blobs[i:j], ","))
		}
		for i := 0; i < c.count; i++ {
			r := c.rng.fork()
			switch r.intn(4) {
			case 0:
				c.tag("kind:cut")
				c.op(fmt.Sprintf("survive kind=cut proto=%s at=%d rst=%d", []string{"h1", "h2"}[r.intn(2)], r.intn(1400), r.intn(2)))
			case 1:
				c.tag("kind:fault")
				c.op(fmt.Sprintf("survive kind=fault proto=%s at=%d mode=%s", []string{"h1", "h2"}[r.intn(2)], r.rangeI(1, 40), []string{"read", "write", "deadline", "any"}[r.intn(4)]))
			case 2:
				c.tag("kind:bytes")
				h := genHello(r)
				rec := h.Record()
				switch r.intn(3) {
				case 0:
					rec = rec[:r.intn(len(rec)+1)]
				case 1:
					rec[r.intn(len(rec))] ^= byte(1 << r.intn(8))
				default:
					rec = append(rec, r.bytes(r.intn(50))...)
				}
				c.op("survive kind=bytes hex=" + hx(rec))
			default:
				c.tag("kind:h2bytes")
				c.op("survive kind=h2bytes hex=" + hx(hostileH2(r)))
			}
		}
	})
}

func lastField(s, key string) string {
	i := strings.LastIndex(s, key)
	if i < 0 {
		return "control=missing"
	}
	return s[i:]
}

// hostileH2 builds a frame sequence with random types, lengths, flags and stream ids (some valid prefix first)
func hostileH2(r *rng) []byte {
	var b []byte
	fr := func(t byte, fl byte, sid uint32, payload []byte) {
		n := len(payload)
		b = append(b, byte(n>>16), byte(n>>8), byte(n), t, fl, byte(sid>>24), byte(sid>>16), byte(sid>>8), byte(sid))
		b = append(b, payload...)
	}
	if r.chance(3, 4) {
		fr(4, 0, 0, nil) // SETTINGS
	}
	for i, n := 0, r.rangeI(1, 12); i < n; i++ {
		t := byte(r.intn(12))
		sid := uint32(r.intn(8))
		if r.chance(1, 5) {
			sid = uint32(r.u64())
		}
		fr(t, byte(r.u64()), sid, r.bytes([]int{0, 1, 4, 5, 8, 9, 30, 200}[r.intn(8)]))
	}
	if r.chance(1, 4) && len(b) > 3 {
		b = b[:r.intn(len(b))]
	}
	return b
}
