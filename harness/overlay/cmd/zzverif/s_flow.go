//go:build verif

package main

import (
	"fmt"
	"strings"
)

func init() {
	register("flow", "C12: operation sequences on inflow / outflow (flow.go) with boundary values", func(c *ctx) {
		c.deferred = true
		vals := []int64{0, 1, 2, 4095, 4096, 4097, 16384, 65535, 65536, 1 << 20, 1<<31 - 2, 1<<31 - 1}
		for i := 0; i < c.count; i++ {
			r := c.rng.fork()
			var ops []string
			ops = append(ops, fmt.Sprintf("i%d", []int64{65535, 0, 1, 1 << 20, 1<<31 - 1}[r.intn(5)]), fmt.Sprintf("I%d", []int64{65535, 1 << 20, 1<<31 - 1}[r.intn(3)]))
			for j, n := 0, r.rangeI(3, 40); j < n; j++ {
				v := vals[r.intn(len(vals))]
				if r.chance(1, 3) {
					v = int64(r.intn(70000))
				}
				switch r.intn(11) {
				case 0, 1:
					ops = append(ops, fmt.Sprintf("t%d", v))
				case 2:
					ops = append(ops, fmt.Sprintf("T%d", v))
				case 3, 4:
					if r.chance(1, 20) {
						v = -v
					}
					ops = append(ops, fmt.Sprintf("a%d", v))
				case 5:
					ops = append(ops, fmt.Sprintf("A%d", v))
				case 6, 7:
					if r.chance(1, 3) {
						v = -v
					}
					ops = append(ops, fmt.Sprintf("oa%d", v))
				case 8:
					if r.chance(1, 3) {
						v = -v
					}
					ops = append(ops, fmt.Sprintf("ca%d", v))
				case 9:
					ops = append(ops, fmt.Sprintf("ot%d", int64(r.intn(70000))))
				default:
					ops = append(ops, "ov")
				}
			}
			c.op("flow ops=" + strings.Join(ops, ";"))
		}
	})
}
