//go:build verif

package main

import (
	"bytes"
	"crypto/tls"
	"fmt"
	"io"
	"net"
	"net/http"
	"os"
	"os/exec"
	"path/filepath"
	"strings"
	"syscall"
	"time"

	fingerproxy "github.com/wi1dcard/fingerproxy"
)

// C17 at the level of the BINARY: `fingerproxy.Run()` itself (flag parsing, signal.NotifyContext, ListenAndServe) runs in a
// child process, which is then stopped with a signal the way an operator, docker or Kubernetes stops it.

// binsigChild is the child: the real Run() with the given command line
func binsigChild(args []string) {
	os.Args = append([]string{"fingerproxy"}, args...)
	fingerproxy.Run()
}

func freePort() string {
	l, err := net.Listen("tcp", "127.0.0.1:0")
	if err != nil {
		panic(err)
	}
	defer l.Close()
	return l.Addr().String()
}

func init() {
	// binsig sig=TERM|INT: one idle keep-alive HTTP/1.1 connection and one exchange in flight, then the signal
	registerOp("binsig", func(a []string) string {
		sig := syscall.SIGTERM
		var again syscall.Signal
		for _, t := range a {
			switch t {
			case "sig=INT":
				sig = syscall.SIGINT
			case "again=INT":
				again = syscall.SIGINT
			case "again=TERM":
				again = syscall.SIGTERM
			}
		}
		dir, err := os.MkdirTemp(e2eTmpRoot, "binsig-")
		if err != nil {
			return "setup-failed"
		}
		defer os.RemoveAll(dir)
		cert, key := genCertPair("example.test")
		os.WriteFile(filepath.Join(dir, "tls.crt"), cert, 0o600)
		os.WriteFile(filepath.Join(dir, "tls.key"), key, 0o600)
		release := make(chan struct{})
		b := newBackend()
		defer b.close()
		b.respond = func(tag string, w http.ResponseWriter, r *http.Request, body []byte) {
			if tag == "slow" {
				select {
				case <-release:
				case <-r.Context().Done():
				}
			}
			w.WriteHeader(200)
			io.WriteString(w, "ok:"+tag)
		}
		addr, maddr := freePort(), freePort()
		cmd := exec.Command(os.Args[0], "child", "run", "-listen-addr", addr, "-forward-url", "http://"+b.ln.Addr().String(),
			"-cert-filename", filepath.Join(dir, "tls.crt"), "-certkey-filename", filepath.Join(dir, "tls.key"), "-metrics-listen-addr", maddr)
		var logb bytes.Buffer
		cmd.Stdout, cmd.Stderr = &logb, &logb
		if err := cmd.Start(); err != nil {
			return "setup-failed"
		}
		done := make(chan error, 1)
		go func() { done <- cmd.Wait() }()
		dial := func() (net.Conn, error) {
			return tls.DialWithDialer(&net.Dialer{Timeout: time.Second}, "tcp", addr, &tls.Config{InsecureSkipVerify: true, NextProtos: []string{"http/1.1"}})
		}
		var ca net.Conn
		for i := 0; i < 100; i++ {
			if ca, err = dial(); err == nil {
				break
			}
			time.Sleep(50 * time.Millisecond)
		}
		if ca == nil {
			cmd.Process.Kill()
			return "setup-failed:not-listening"
		}
		defer ca.Close()
		req := func(tag string) []e2eReq {
			return []e2eReq{{method: "GET", path: "/", host: "example.test", tag: tag, hasUA: true, ua: "verif"}}
		}
		if rs := h1Exchange(ca, req("fast")); len(rs) == 0 || rs[0].status != 200 {
			cmd.Process.Kill()
			return "setup-failed:no-service"
		}
		cb, err := dial()
		if err != nil {
			cmd.Process.Kill()
			return "setup-failed"
		}
		defer cb.Close()
		inflight := make(chan string, 1)
		go func() {
			cb.SetDeadline(time.Now().Add(8 * time.Second))
			rs := h1Exchange(cb, req("slow"))
			if len(rs) == 1 && rs[0].err == "" {
				inflight <- "complete"
			} else {
				inflight <- "cut"
			}
		}()
		for i := 0; i < 100 && b.get("slow") == nil; i++ {
			time.Sleep(10 * time.Millisecond)
		}
		var held net.Conn
		if again != 0 {
			// a connection in the middle of SENDING its request keeps the graceful shutdown waiting (the exchange in flight ends
			// at once: its context is cancelled): a drain window of 400 ms
			if held, err = dial(); err == nil {
				io.WriteString(held, "GET /held HTTP/1.1\r\nHost: example.test\r\n")
				time.Sleep(40 * time.Millisecond)
				time.AfterFunc(400*time.Millisecond+40*time.Millisecond, func() { held.Close() })
			}
		}
		cmd.Process.Signal(sig)
		if again != 0 {
			// an impatient operator: the same or the other signal once more while the exchange in flight is still draining
			time.AfterFunc(100*time.Millisecond, func() { cmd.Process.Signal(again) })
		}
		time.AfterFunc(300*time.Millisecond, func() { close(release) })
		exit := "timeout"
		select {
		case err := <-done:
			exit = "0"
			if err != nil {
				exit = strings.ReplaceAll(err.Error(), " ", "_")
			}
		case <-time.After(6 * time.Second):
			cmd.Process.Kill()
			<-done
		}
		fl := <-inflight
		idle := "open"
		ca.SetReadDeadline(time.Now().Add(time.Second))
		if _, err := ca.Read(make([]byte, 1)); err != nil {
			if ne, ok := err.(net.Error); !ok || !ne.Timeout() {
				idle = "closed"
			}
		}
		return fmt.Sprintf("exit=%s idle=%s inflight=%s", exit, idle, fl)
	})
}
