//go:build verif

package main

import (
	"fmt"
	"math"
	"strconv"
	"strings"

	"github.com/wi1dcard/fingerproxy/pkg/metadata"
)

// h2marshal max=<n> S=<id.val;..> WU=<n> P=<stream.dep.excl.weight,..> H=<namehex;..>
func h2marshalExec(a []string) string {
	var fr metadata.HTTP2FingerprintingFrames
	max := uint(0)
	for _, t := range a {
		i := strings.IndexByte(t, '=')
		k, v := t[:i], t[i+1:]
		switch k {
		case "max":
			u, _ := strconv.ParseUint(v, 10, 64)
			max = uint(u)
		case "S":
			if v != "" && v != "-" {
				for _, e := range strings.Split(v, ";") {
					p := strings.Split(e, ".")
					id, _ := strconv.ParseUint(p[0], 10, 16)
					val, _ := strconv.ParseUint(p[1], 10, 32)
					fr.Settings = append(fr.Settings, metadata.Setting{Id: uint16(id), Val: uint32(val)})
				}
			}
		case "WU":
			u, _ := strconv.ParseUint(v, 10, 32)
			fr.WindowUpdateIncrement = uint32(u)
		case "P":
			if v != "" && v != "-" {
				for _, e := range strings.Split(v, ",") {
					p := strings.Split(e, ".")
					s, _ := strconv.ParseUint(p[0], 10, 32)
					d, _ := strconv.ParseUint(p[1], 10, 32)
					w, _ := strconv.ParseUint(p[3], 10, 8)
					fr.Priorities = append(fr.Priorities, metadata.Priority{StreamId: uint32(s), StreamDep: uint32(d), Exclusive: p[2] == "1", Weight: uint8(w)})
				}
			}
		case "H":
			if v != "" && v != "-" {
				for _, e := range strings.Split(v, ";") {
					fr.Headers = append(fr.Headers, metadata.HeaderField{Name: string(unhx(e)), Value: "v"})
				}
			}
		}
	}
	return hx([]byte(fr.Marshal(max)))
}

func init() {
	registerOp("h2marshal", h2marshalExec)
	register("h2marshal", "HTTP2FingerprintingFrames.Marshal on generated records, every limit class", func(c *ctx) {
		for i := 0; i < c.count; i++ {
			r := c.rng.fork()
			var S, P, H []string
			for j, n := 0, []int{0, 1, 2, 6, 30}[r.intn(5)]; j < n; j++ {
				id := []uint16{1, 2, 3, 4, 5, 6, 8, 9, 0, 0xffff, 0x0a0a}[r.intn(11)]
				val := []uint32{0, 1, 9, 10, 100, 65535, 65536, 6291456, math.MaxInt32, math.MaxUint32}[r.intn(10)]
				if r.chance(1, 3) {
					val = uint32(r.u64())
				}
				S = append(S, fmt.Sprintf("%d.%d", id, val))
			}
			wu := []uint32{0, 1, 5, 9, 10, 11, 99, 100, 15663105, math.MaxInt32, math.MaxUint32}[r.intn(11)]
			nP := []int{0, 1, 2, 3, 7, 40}[r.intn(6)]
			for j := 0; j < nP; j++ {
				w := []int{0, 1, 15, 109, 254, 255}[r.intn(6)]
				P = append(P, fmt.Sprintf("%d.%d.%d.%d", r.u64()%(1<<31), r.u64()%(1<<31), r.intn(2), w))
			}
			nH := []int{0, 1, 4, 5, 12}[r.intn(5)]
			for j := 0; j < nH; j++ {
				name := []string{":method", ":path", ":scheme", ":authority", ":status", ":protocol", "user-agent", "accept", ":", "", "a", ":x", "::", "x:y", ":|"}[r.intn(15)]
				H = append(H, hx([]byte(name)))
			}
			var max uint64
			switch r.intn(7) {
			case 0:
				max = 0
			case 1:
				max = 1
			case 2:
				max = uint64(nP)
			case 3:
				if nP > 0 {
					max = uint64(nP - 1)
				}
			case 4:
				max = uint64(nP + 1)
			case 5:
				max = math.MaxUint64
			default:
				max = 10000
			}
			c.tag(fmt.Sprintf("prios:%s", bucket(nP)))
			c.tag(fmt.Sprintf("maxclass:%d", r.intn(1)+int(minU(max, 3))))
			c.op(fmt.Sprintf("h2marshal max=%d S=%s WU=%d P=%s H=%s", max, dash(strings.Join(S, ";")), wu, dash(strings.Join(P, ",")), dash(strings.Join(H, ";"))))
		}
	})
}

func dash(s string) string {
	if s == "" {
		return "-"
	}
	return s
}
func minU(a, b uint64) uint64 {
	if a < b {
		return a
	}
	return b
}
