//go:build verif

package main

import (
	"fmt"

	"github.com/dreadl0ck/tlsx"
	"github.com/wi1dcard/fingerproxy/pkg/fingerprint"
	"github.com/wi1dcard/fingerproxy/pkg/ja3"
	"github.com/wi1dcard/fingerproxy/pkg/metadata"
)

// ja3Impl runs the real code path on a captured record and canonicalises the outcome.
// bare: what ja3.Bare returns for tlsx's parse; fp: what fingerprint.JA3Fingerprint returns.
func ja3Impl(rec []byte) (bare string, fp string) {
	func() {
		defer func() {
			if r := recover(); r != nil {
				bare = "panic"
			}
		}()
		hb := &tlsx.ClientHelloBasic{}
		if err := hb.Unmarshal(rec); err != nil {
			switch err {
			case tlsx.ErrHandshakeBadLength:
				bare = "err badLength"
			case tlsx.ErrHandshakeWrongType:
				bare = "err wrongType"
			case tlsx.ErrHandshakeExtBadLength:
				bare = "err extBadLength"
			default:
				bare = "err other:" + err.Error()
			}
			return
		}
		bare = "ok " + hx(ja3.Bare(hb))
	}()
	func() {
		defer func() {
			if r := recover(); r != nil {
				fp = "panic"
			}
		}()
		v, err := fingerprint.JA3Fingerprint(&metadata.Metadata{ClientHelloRecord: rec})
		if err != nil {
			fp = "err"
		} else {
			fp = "ok " + v
		}
	}()
	return
}

func init() {
	registerOp("ser", func(a []string) string { return hx(parseHelloToken(a).Record()) })
	registerOp("ja3", func(a []string) string { b, _ := ja3Impl(unhx(a[0])); return b })
	registerOp("ja3fp", func(a []string) string { _, f := ja3Impl(unhx(a[0])); return f })
	// property oracle: the implementation's answer on the record of a structured hello; the driver
	// answers with the SPECIFICATION's JA3 string of that hello.
	registerOp("ja3spec", func(a []string) string { b, _ := ja3Impl(parseHelloToken(a).Record()); return b })
	// the same oracle on the production entry point (fingerprint.JA3Fingerprint on the connection's metadata), in the
	// order the operations come: whatever an earlier hello left behind must not show in a later one's header
	registerOp("ja3fpspec", func(a []string) string { _, f := ja3Impl(parseHelloToken(a).Record()); return f })

	register("ja3", "JA3: structured well-formed hellos, malformed mutations, exhaustive singleton values", func(c *ctx) {
		emitHello := func(h *Hello, kind string) {
			rec := h.Record()
			c.tag("kind:" + kind)
			c.tag(fmt.Sprintf("ciphers:%s", bucket(len(h.Ciphers))))
			if h.NoExts {
				c.tag("exts:none")
			} else {
				c.tag(fmt.Sprintf("exts:%s", bucket(len(h.Exts))))
			}
			tok := h.Token()
			c.op("ser " + tok)     // driver's serialize must give the same bytes
			r := c.op("ja3 " + hx(rec)) // correspondence: model of tlsx+Bare on the bytes
			c.tag("outcome:" + firstWord(r))
			c.op("ja3fp " + hx(rec)) // header value (the checker applies MD5 to the model's string)
			c.op("ja3spec " + tok)   // property oracle
			c.op("ja3fpspec " + tok) // property oracle on the header value
		}
		single := func(v uint16, kind string) {
			h := &Hello{RecVer: 0x0301, HsVer: 0x0303, Random: make([]byte, 32), Ciphers: []uint16{v}, Comp: []byte{0},
				Exts: []Ext{{Kind: "grp", U16s: []uint16{v}}, {Kind: "pts", Bytes: []byte{byte(v)}}}}
			switch v {
			case 0, 10, 11, 13, 16, 43:
			default:
				h.Exts = append(h.Exts, Ext{Kind: "raw", Type: v})
			}
			emitHello(h, kind)
		}
		// exhaustive: every uint16 as the only cipher / extension / group, every uint8 as the only point
		if c.tier == "thorough" {
			for v := 0; v < 65536; v++ {
				single(uint16(v), "exhaustive-singleton")
			}
		} else {
			for _, v := range append(append([]uint16{}, greaseVals...), nearGrease...) {
				single(v, "singleton")
			}
		}
		for i := 0; i < c.count; i++ {
			r := c.rng.fork()
			h := genHello(r)
			emitHello(h, "wellformed")
			// malformed stream: one mutation of the same record in five
			if i%5 == 0 {
				rec := h.Record()
				var m []byte
				kind := ""
				switch r.intn(4) {
				case 0:
					m = rec[:r.intn(len(rec)+1)]
					kind = "truncate"
				case 1:
					m = append([]byte{}, rec...)
					m[r.intn(len(m))] ^= byte(1 << r.intn(8))
					kind = "bitflip"
				case 2:
					m = append(append([]byte{}, rec...), r.bytes(r.rangeI(1, 9))...)
					kind = "trailing"
				default:
					m = r.bytes(r.intn(80))
					if len(m) > 6 && r.chance(1, 2) {
						m[0], m[5] = 22, 1
					}
					kind = "random"
				}
				c.tag("kind:malformed-" + kind)
				res := c.op("ja3 " + hx(m))
				c.tag("outcome:" + firstWord(res))
				c.op("ja3fp " + hx(m))
			}
		}
	})
}

func bucket(n int) string {
	switch {
	case n == 0:
		return "0"
	case n == 1:
		return "1"
	case n == 2:
		return "2"
	case n < 10:
		return "3-9"
	case n < 100:
		return "10-99"
	}
	return "100+"
}

func firstWord(s string) string {
	for i := 0; i < len(s); i++ {
		if s[i] == ' ' {
			return s[:i]
		}
	}
	return s
}
