//go:build verif

package main

import (
	"bytes"
	"crypto/md5"
	"errors"
	"fmt"
	"net"
	"strconv"
	"strings"
	"time"

	"github.com/wi1dcard/fingerproxy/pkg/hack"
)

// scriptConn delivers scripted chunks; a nil chunk is a read error; a chunk listed in withErr is delivered
// TOGETHER with an error (io.Reader allows n > 0 with err != nil).
type scriptConn struct {
	chunks  [][]byte
	withErr map[int]bool
	i       int
	lastErr error // what the last Read of the underlying connection returned
}

var errScripted = errors.New("scripted read error")

func (c *scriptConn) Read(b []byte) (n int, err error) {
	defer func() { c.lastErr = err }()
	if c.i >= len(c.chunks) {
		return 0, errScripted
	}
	ch := c.chunks[c.i]
	c.i++
	if ch == nil {
		return 0, errScripted
	}
	if c.withErr[c.i-1] {
		return copy(b, ch), errScripted
	}
	return copy(b, ch), nil
}
func (c *scriptConn) Write(b []byte) (int, error)      { return len(b), nil }
func (c *scriptConn) Close() error                     { return nil }
func (c *scriptConn) LocalAddr() net.Addr              { return nil }
func (c *scriptConn) RemoteAddr() net.Addr             { return nil }
func (c *scriptConn) SetDeadline(time.Time) error      { return nil }
func (c *scriptConn) SetReadDeadline(time.Time) error  { return nil }
func (c *scriptConn) SetWriteDeadline(time.Time) error { return nil }

// parseParts: "hex+r<count>x<hh>+..." -> bytes
func parseParts(s string) []byte {
	var out []byte
	for _, p := range strings.Split(s, "+") {
		if p == "" || p == "-" {
			continue
		}
		if p[0] == 'r' {
			i := strings.IndexByte(p, 'x')
			n, _ := strconv.Atoi(p[1:i])
			b := unhx(p[i+1:])[0]
			out = append(out, bytes.Repeat([]byte{b}, n)...)
		} else {
			out = append(out, unhx(p)...)
		}
	}
	return out
}

func capRes(h *hack.HijackClientHelloConn) string {
	rec, err := h.GetClientHello()
	if err != nil {
		switch {
		case errors.Is(err, hack.ErrIncompleteClientHello):
			return "err:incomplete"
		case strings.HasPrefix(err.Error(), "tls record type"):
			return "err:notHandshake"
		case strings.HasPrefix(err.Error(), "unknown tls version"):
			return "err:badVersion"
		}
		return "err:other"
	}
	return fmt.Sprintf("ok:%d:%x", len(rec), md5.Sum(rec))
}

// cap parts=<...> cuts=<n|e,...>: deliver the stream in chunks of the given sizes ("e" = a failing read),
// ask GetClientHello after every read, print the answer whenever it changes; check transparency.
func capExec(a []string) string {
	var stream []byte
	var cuts []string
	for _, t := range a {
		if strings.HasPrefix(t, "parts=") {
			stream = parseParts(t[6:])
		} else if strings.HasPrefix(t, "cuts=") && len(t) > 5 {
			cuts = strings.Split(t[5:], ",")
		}
	}
	sc := &scriptConn{}
	off := 0
	var delivered []byte
	for _, c := range cuts {
		if c == "e" {
			sc.chunks = append(sc.chunks, nil)
			continue
		}
		if strings.HasSuffix(c, "E") {
			if sc.withErr == nil {
				sc.withErr = map[int]bool{}
			}
			sc.withErr[len(sc.chunks)] = true
			c = c[:len(c)-1]
		}
		n, _ := strconv.Atoi(c)
		if off+n > len(stream) {
			n = len(stream) - off
		}
		ch := append([]byte{}, stream[off:off+n]...) // non-nil even when empty
		sc.chunks = append(sc.chunks, ch)
		delivered = append(delivered, ch...)
		off += n
	}
	h := hack.NewHijackClientHelloConn(sc)
	var sb strings.Builder
	last := capRes(h)
	sb.WriteString("0:" + last)
	var up []byte
	buf := make([]byte, 70000)
	errsSame := true
	for i := range sc.chunks {
		n, err := h.Read(buf)
		up = append(up, buf[:n]...) // a reader consumes the n bytes before it looks at the error
		if err != sc.lastErr {
			errsSame = false // the layer above must see exactly the errors the connection produced: none invented, none swallowed
		}
		r := capRes(h)
		if r != last {
			fmt.Fprintf(&sb, " %d:%s", i+1, r)
			last = r
		}
	}
	if bytes.Equal(up, delivered) && errsSame {
		sb.WriteString(" up=ok")
	} else {
		sb.WriteString(" up=MISMATCH")
	}
	return sb.String()
}

// capspec: same arguments; the implementation's final answer only ("none" for any error). The driver
// answers with the SPECIFICATION (Fp.Spec.Capture.captured of the bytes delivered).
func capSpecExec(a []string) string {
	full := capExec(a)
	f := strings.Fields(full)
	last := ""
	for _, t := range f {
		if i := strings.IndexByte(t, ':'); i > 0 && t != "up=ok" && t != "up=MISMATCH" {
			last = t[i+1:]
		}
	}
	if strings.HasPrefix(last, "err:") {
		last = "none"
	}
	return last + " " + f[len(f)-1]
}

func compositions(n int, f func([]int)) {
	// all 2^(n-1) ways to cut n bytes into successive non-empty chunks
	if n == 0 {
		f(nil)
		return
	}
	for mask := 0; mask < 1<<(n-1); mask++ {
		var cuts []int
		cur := 1
		for i := 0; i < n-1; i++ {
			if mask&(1<<i) != 0 {
				cuts = append(cuts, cur)
				cur = 1
			} else {
				cur++
			}
		}
		cuts = append(cuts, cur)
		f(cuts)
	}
}

func cutsStr(cuts []int) string {
	s := make([]string, len(cuts))
	for i, c := range cuts {
		s[i] = strconv.Itoa(c)
	}
	return strings.Join(s, ",")
}

func init() {
	registerOp("cap", capExec)
	registerOp("capspec", capSpecExec)
	register("cap", "ClientHello capture: scripted reads against the real HijackClientHelloConn", func(c *ctx) {
		emit := func(parts string, total int, cuts string, kind string) {
			c.tag("kind:" + kind)
			r := c.op("cap parts=" + parts + " cuts=" + cuts)
			c.op("capspec parts=" + parts + " cuts=" + cuts)
			if strings.Contains(r, "ok:") {
				c.tag("outcome:captured")
			} else {
				c.tag("outcome:none")
			}
			_ = total
		}
		hdr := func(ty byte, ver uint16, n int) string {
			return fmt.Sprintf("%02x%04x%04x", ty, ver, n)
		}
		// exhaustive: every segmentation of every short stream (record payload 0..maxP, trailing 0..3)
		maxTotal := 10
		if c.tier == "thorough" {
			maxTotal = 14
		}
		for p := 0; p <= maxTotal-5; p++ {
			for trail := 0; trail <= 3 && 5+p+trail <= maxTotal; trail++ {
				parts := hdr(22, 0x0301, p)
				if p > 0 {
					parts += fmt.Sprintf("+r%dxab", p)
				}
				if trail > 0 {
					parts += "+" + strings.Repeat("17", trail)
				}
				compositions(5+p+trail, func(cuts []int) { emit(parts, 5+p+trail, cutsStr(cuts), "exhaustive-segmentation") })
			}
		}
		// every version value (thorough) / boundary versions, type bytes
		vers := []int{0x02ff, 0x0300, 0x0301, 0x0302, 0x0303, 0x0304, 0x0305, 0, 0xffff, 0x0200, 0x0400}
		if c.tier == "thorough" {
			vers = nil
			for v := 0; v < 65536; v++ {
				vers = append(vers, v)
			}
		}
		for _, v := range vers {
			emit(hdr(22, uint16(v), 2)+"+0102+aa", 8, "3,5", "version-sweep")
		}
		for ty := 0; ty < 256; ty++ {
			emit(hdr(byte(ty), 0x0303, 1)+"+01", 6, "6", "type-sweep")
		}
		// boundary lengths with cut pairs around the header and record boundary
		for _, L := range []int{0, 1, 2, 16384, 18432, 65530} {
			parts := hdr(22, 0x0303, L)
			if L > 0 {
				parts += fmt.Sprintf("+r%dx5a", L)
			}
			parts += "+1703030002beef"
			total := 5 + L + 7
			for _, a := range []int{1, 4, 5, 6} {
				for _, b := range []int{5 + L - 1, 5 + L, 5 + L + 1, total} {
					if b <= a || b > total {
						continue
					}
					cuts := []int{a, b - a}
					if total-b > 0 {
						cuts = append(cuts, total-b)
					}
					emit(parts, total, cutsStr(cuts), "boundary-cuts")
				}
			}
			emit(parts, total, strconv.Itoa(total), "boundary-cuts")
		}
		// a first record that is rejected (wrong type / version outside the range), followed by a complete well-formed
		// handshake record, with a read boundary before, at and after the start of the second record: the stream's FIRST
		// record decides, whatever arrives later and however it is cut
		for _, first := range []string{hdr(23, 0x0303, 2) + "+0102", hdr(22, 0x0305, 2) + "+0102", hdr(21, 0x0301, 0), hdr(22, 0x0200, 1) + "+01", hdr(0, 0, 3) + "+010203"} {
			fl := 5
			for _, p := range strings.Split(first, "+")[1:] {
				fl += len(p) / 2
			}
			second := hdr(22, 0x0301, 4) + "+01000000"
			total := fl + 9
			for _, a := range []int{1, 4, 5, fl - 1, fl, fl + 1, fl + 5, total} {
				if a < 1 || a > total {
					continue
				}
				cuts := []int{a}
				if total-a > 0 {
					cuts = append(cuts, total-a)
				}
				emit(first+"+"+second, total, cutsStr(cuts), "rejected-then-valid")
				if a < fl && total-fl > 0 {
					emit(first+"+"+second, total, cutsStr([]int{a, fl - a, total - fl}), "rejected-then-valid")
				}
			}
		}
		// random: structured streams and cuts, failing reads, truncated delivery, zero-length reads
		for i := 0; i < c.count; i++ {
			r := c.rng.fork()
			L := []int{0, 1, 5, 40, 200, 517, 1500, 4000, 16384}[r.intn(9)]
			if r.chance(1, 3) {
				L = r.intn(600)
			}
			decl := L
			ty, ver := byte(22), uint16(0x0300+r.intn(5))
			kind := "random-valid"
			switch r.intn(12) {
			case 0:
				ty = byte(r.intn(256))
				kind = "random-type"
			case 1:
				ver = r.u16()
				kind = "random-version"
			case 2:
				decl = L + r.rangeI(1, 50) // stream ends before the record is complete
				kind = "random-short"
			}
			parts := hdr(ty, ver, decl)
			if L > 0 {
				parts += "+" + hx(r.bytes(minI(L, 64)))
				if L > 64 {
					parts += fmt.Sprintf("+r%dx%02x", L-64, r.intn(256))
				}
			}
			trail := r.intn(40)
			if trail > 0 && kind != "random-short" {
				parts += "+" + hx(r.bytes(trail))
			} else {
				trail = 0
			}
			total := 5 + L + trail
			var cuts []string
			left := total
			if r.chance(1, 6) {
				left = r.intn(total + 1) // truncated delivery
			}
			mode := r.intn(4)
			for left > 0 {
				n := 1
				switch mode {
				case 0:
					n = 1
					if total > 300 {
						n = r.rangeI(1, 64)
					}
				case 1:
					n = r.rangeI(1, left)
				case 2:
					n = r.rangeI(1, minI(left, 7))
					if total > 300 {
						n = r.rangeI(1, minI(left, 700))
					}
				case 3:
					n = left
				}
				if r.chance(1, 25) {
					cuts = append(cuts, "e")
				}
				if r.chance(1, 30) {
					cuts = append(cuts, "0")
				}
				cuts = append(cuts, strconv.Itoa(n))
				left -= n
			}
			emit(parts, total, strings.Join(cuts, ","), kind)
			if len(cuts) > 0 && cuts[len(cuts)-1] != "e" && r.chance(1, 4) {
				// the last bytes arrive together with a read error: the reader above must still get them
				withErr := append(append([]string{}, cuts[:len(cuts)-1]...), cuts[len(cuts)-1]+"E")
				c.tag("kind:data-with-error")
				c.op("cap parts=" + parts + " cuts=" + strings.Join(withErr, ","))
			}
		}
	})
}

func minI(a, b int) int {
	if a < b {
		return a
	}
	return b
}
