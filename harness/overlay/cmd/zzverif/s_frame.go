//go:build verif

package main

import (
	"bytes"
	"errors"
	"fmt"
	"io"
	"strconv"
	"strings"

	"github.com/wi1dcard/fingerproxy/pkg/http2"
	xhpack "golang.org/x/net/http2/hpack" // the copy pkg/http2 links
)

func prioStr(p http2.PriorityParam) string {
	return fmt.Sprintf("%d.%d.%d", p.StreamDep, b2i(p.Exclusive), p.Weight)
}

func frameStr(f http2.Frame) string {
	h := f.Header()
	fl := int(h.Flags)
	switch v := f.(type) {
	case *http2.DataFrame:
		return fmt.Sprintf("D:%d:%d:%s", h.StreamID, fl, hx(v.Data()))
	case *http2.HeadersFrame:
		return fmt.Sprintf("H:%d:%d:%s:%s", h.StreamID, fl, prioStr(v.Priority), hx(v.HeaderBlockFragment()))
	case *http2.PriorityFrame:
		return fmt.Sprintf("P:%d:%d:%s", h.StreamID, fl, prioStr(v.PriorityParam))
	case *http2.RSTStreamFrame:
		return fmt.Sprintf("R:%d:%d:%d", h.StreamID, fl, uint32(v.ErrCode))
	case *http2.SettingsFrame:
		var ss []string
		for i := 0; i < v.NumSettings(); i++ {
			s := v.Setting(i)
			ss = append(ss, fmt.Sprintf("%d.%d", uint16(s.ID), s.Val))
		}
		return fmt.Sprintf("S:%d:%s", fl, strings.Join(ss, ";"))
	case *http2.PushPromiseFrame:
		return fmt.Sprintf("PP:%d:%d:%d:%s", h.StreamID, fl, v.PromiseID, hx(v.HeaderBlockFragment()))
	case *http2.PingFrame:
		return fmt.Sprintf("G:%d:%s", fl, hx(v.Data[:]))
	case *http2.GoAwayFrame:
		return fmt.Sprintf("GA:%d:%d:%d:%s", fl, v.LastStreamID, uint32(v.ErrCode), hx(v.DebugData()))
	case *http2.WindowUpdateFrame:
		return fmt.Sprintf("W:%d:%d:%d", h.StreamID, fl, v.Increment)
	case *http2.ContinuationFrame:
		return fmt.Sprintf("C:%d:%d:%s", h.StreamID, fl, hx(v.HeaderBlockFragment()))
	case *http2.UnknownFrame:
		return fmt.Sprintf("U:%d:%d:%d:%s", uint8(h.Type), h.StreamID, fl, hx(v.Payload()))
	}
	return fmt.Sprintf("?%T", f)
}

func readErrStr(err error) string {
	var ce http2.ConnectionError
	var se http2.StreamError
	switch {
	case errors.As(err, &ce):
		return fmt.Sprintf("err:conn:%d", uint32(ce))
	case errors.As(err, &se):
		return fmt.Sprintf("err:stream:%d:%d", se.StreamID, uint32(se.Code))
	case errors.Is(err, http2.ErrFrameTooLarge):
		return "err:toolarge"
	case err == io.EOF:
		return "err:eof"
	case err == io.ErrUnexpectedEOF:
		return "err:ueof"
	}
	return "err:other:" + strings.ReplaceAll(err.Error(), " ", "_")
}

func writeErrStr(err error) string {
	switch {
	case errors.Is(err, http2.ErrFrameTooLarge):
		return "err:toolarge"
	case err.Error() == "invalid stream ID":
		return "err:streamid"
	case err.Error() == "invalid dependent stream ID":
		return "err:depstreamid"
	case err.Error() == "pad length too large":
		return "err:padlength"
	case strings.HasPrefix(err.Error(), "padding bytes must"):
		return "err:padbytes"
	case err.Error() == "illegal window increment value":
		return "err:increment"
	}
	return "err:other:" + strings.ReplaceAll(err.Error(), " ", "_")
}

func parsePrio3(s string) http2.PriorityParam {
	p := strings.Split(s, ".")
	d, _ := strconv.ParseUint(p[0], 10, 32)
	w, _ := strconv.ParseUint(p[2], 10, 8)
	return http2.PriorityParam{StreamDep: uint32(d), Exclusive: p[1] == "1", Weight: uint8(w)}
}

// fwrDo performs the Write* call named by the arguments
func fwrDo(fr *http2.Framer, a []string) error {
	u := func(s string) uint32 { v, _ := strconv.ParseUint(s, 10, 32); return uint32(v) }
	switch a[0] {
	case "D":
		if a[4] == "nil" {
			return fr.WriteData(u(a[1]), a[2] == "1", unhx(a[3]))
		}
		pad := unhx(a[4])
		if pad == nil {
			pad = []byte{}
		}
		return fr.WriteDataPadded(u(a[1]), a[2] == "1", unhx(a[3]), pad)
	case "H":
		return fr.WriteHeaders(http2.HeadersFrameParam{StreamID: u(a[1]), EndStream: a[2] == "1", EndHeaders: a[3] == "1", PadLength: uint8(u(a[4])), Priority: parsePrio3(a[5]), BlockFragment: unhx(a[6])})
	case "P":
		return fr.WritePriority(u(a[1]), parsePrio3(a[2]))
	case "R":
		return fr.WriteRSTStream(u(a[1]), http2.ErrCode(u(a[2])))
	case "S":
		var ss []http2.Setting
		if a[1] != "-" {
			for _, e := range strings.Split(a[1], ";") {
				q := strings.Split(e, ".")
				ss = append(ss, http2.Setting{ID: http2.SettingID(u(q[0])), Val: u(q[1])})
			}
		}
		return fr.WriteSettings(ss...)
	case "SA":
		return fr.WriteSettingsAck()
	case "PP":
		return fr.WritePushPromise(http2.PushPromiseParam{StreamID: u(a[1]), PromiseID: u(a[2]), EndHeaders: a[3] == "1", PadLength: uint8(u(a[4])), BlockFragment: unhx(a[5])})
	case "G":
		var d [8]byte
		copy(d[:], unhx(a[2]))
		return fr.WritePing(a[1] == "1", d)
	case "GA":
		return fr.WriteGoAway(u(a[1]), http2.ErrCode(u(a[2])), unhx(a[3]))
	case "W":
		return fr.WriteWindowUpdate(u(a[1]), u(a[2]))
	case "C":
		return fr.WriteContinuation(u(a[1]), a[2] == "1", unhx(a[3]))
	case "RAW":
		return fr.WriteRawFrame(http2.FrameType(u(a[1])), http2.Flags(u(a[2])), u(a[3]), unhx(a[4]))
	}
	return errors.New("bad fwr kind")
}

// expected: the canonical text of the frame the parameters describe (what a faithful reader must return)
func fwrExpected(a []string) string {
	fl := 0
	switch a[0] {
	case "D":
		if a[2] == "1" {
			fl |= 1
		}
		if a[4] != "nil" {
			fl |= 8
		}
		return fmt.Sprintf("D:%s:%d:%s", a[1], fl, a[3])
	case "H":
		if a[2] == "1" {
			fl |= 1
		}
		if a[3] == "1" {
			fl |= 4
		}
		if a[4] != "0" {
			fl |= 8
		}
		if a[5] != "0.0.0" {
			fl |= 32
		}
		return fmt.Sprintf("H:%s:%d:%s:%s", a[1], fl, a[5], a[6])
	case "P":
		return fmt.Sprintf("P:%s:0:%s", a[1], a[2])
	case "R":
		return fmt.Sprintf("R:%s:0:%s", a[1], a[2])
	case "S":
		return fmt.Sprintf("S:0:%s", strings.ReplaceAll(a[1], "-", ""))
	case "SA":
		return "S:1:"
	case "PP":
		if a[3] == "1" {
			fl |= 4
		}
		if a[4] != "0" {
			fl |= 8
		}
		return fmt.Sprintf("PP:%s:%d:%s:%s", a[1], fl, a[2], a[5])
	case "G":
		return fmt.Sprintf("G:%d:%s", b2i(a[1] == "1"), a[2])
	case "GA":
		return fmt.Sprintf("GA:0:%s:%s:%s", a[1], a[2], a[3])
	case "W":
		return fmt.Sprintf("W:%s:0:%s", a[1], a[2])
	case "C":
		return fmt.Sprintf("C:%s:%d:%s", a[1], 4*b2i(a[2] == "1"), a[3])
	}
	return "?"
}

func init() {
	registerOp("frd", func(a []string) string {
		max, b := uint32(16384), []byte{}
		for _, t := range a {
			if strings.HasPrefix(t, "max=") {
				n, _ := strconv.ParseUint(t[4:], 10, 32)
				max = uint32(n)
			} else if strings.HasPrefix(t, "b=") {
				b = unhx(t[2:])
			}
		}
		fr := http2.NewFramer(io.Discard, bytes.NewReader(b))
		fr.SetMaxReadFrameSize(max)
		var out []string
		for {
			f, err := fr.ReadFrame()
			if err != nil {
				out = append(out, readErrStr(err))
				break
			}
			out = append(out, frameStr(f))
			if h := f.Header(); h.Length > max {
				out = append(out, "OVERSIZE")
			}
		}
		return strings.Join(out, " ")
	})
	// frdspec <type> <flags> <sid> <payload>: ORACLE — one complete frame; the reader returns the frame or rejects it
	// with a stream / connection error of the RFC's code; nothing else (in particular no bare I/O error)
	registerOp("frdspec", func(a []string) string {
		var buf bytes.Buffer
		fr := http2.NewFramer(&buf, &buf)
		if err := fwrDo(fr, append([]string{"RAW"}, a...)); err != nil {
			return "unwritable"
		}
		f, err := fr.ReadFrame()
		if err != nil {
			return readErrStr(err)
		}
		return frameStr(f)
	})
	registerOp("fwr", func(a []string) string {
		var buf bytes.Buffer
		fr := http2.NewFramer(&buf, nil)
		if err := fwrDo(fr, a); err != nil {
			return writeErrStr(err)
		}
		return hx(buf.Bytes())
	})
	// frt <write args>: ORACLE — whatever the framer accepts to write (with RFC-valid values), the framer reads
	// back as the same frame: type, flags, stream id, every field, payload (padding removed)
	registerOp("frt", func(a []string) string {
		var buf bytes.Buffer
		fr := http2.NewFramer(&buf, &buf)
		fr.SetMaxReadFrameSize(1<<24 - 1)
		if err := fwrDo(fr, a); err != nil {
			return "rt=ok" // rejected by the writer: nothing to read back
		}
		if a[0] == "C" { // a CONTINUATION is only legal after HEADERS without END_HEADERS on the same stream
			var b2 bytes.Buffer
			f2 := http2.NewFramer(&b2, &b2)
			f2.SetMaxReadFrameSize(1<<24 - 1)
			sid, _ := strconv.ParseUint(a[1], 10, 32)
			f2.WriteHeaders(http2.HeadersFrameParam{StreamID: uint32(sid), BlockFragment: []byte{0x82}})
			b2.Write(buf.Bytes())
			if _, err := f2.ReadFrame(); err != nil {
				return "rt=FAIL:prefix:" + readErrStr(err)
			}
			fr = f2
		}
		f, err := fr.ReadFrame()
		if err != nil {
			return "rt=FAIL:read:" + readErrStr(err)
		}
		if got, want := frameStr(f), fwrExpected(a); got != want {
			return "rt=FAIL:got=" + got + ",want=" + want
		}
		return "rt=ok"
	})
	// frtmeta: HEADERS + n CONTINUATION frames carrying one hpack block, read with ReadMetaHeaders: fields reassembled
	registerOp("frtmeta", func(a []string) string {
		nfrag, _ := strconv.Atoi(a[0])
		var hb bytes.Buffer
		enc := xhpack.NewEncoder(&hb)
		var want []string
		for _, kv := range strings.Split(a[1], ",") {
			p := strings.Split(kv, ".")
			f := xhpack.HeaderField{Name: string(unhx(p[0])), Value: string(unhx(p[1]))}
			enc.WriteField(f)
			want = append(want, f.Name+"="+f.Value)
		}
		block := hb.Bytes()
		var buf bytes.Buffer
		fr := http2.NewFramer(&buf, &buf)
		if nfrag > len(block) {
			nfrag = len(block)
		}
		for i := 0; i < nfrag; i++ {
			part := block[i*len(block)/nfrag : (i+1)*len(block)/nfrag]
			if i == 0 {
				fr.WriteHeaders(http2.HeadersFrameParam{StreamID: 1, BlockFragment: part, EndHeaders: nfrag == 1, EndStream: true})
			} else {
				fr.WriteContinuation(1, i == nfrag-1, part)
			}
		}
		fr.ReadMetaHeaders = xhpack.NewDecoder(4096, nil)
		f, err := fr.ReadFrame()
		if err != nil {
			return "rt=FAIL:read:" + readErrStr(err)
		}
		mh, ok := f.(*http2.MetaHeadersFrame)
		if !ok {
			return "rt=FAIL:type"
		}
		var got []string
		for _, hf := range mh.Fields {
			got = append(got, hf.Name+"="+hf.Value)
		}
		if strings.Join(got, "|") != strings.Join(want, "|") || !mh.StreamEnded() {
			return "rt=FAIL:fields"
		}
		return "rt=ok"
	})

	// frtmeta2 <bad>: ONE framer with ReadMetaHeaders reads (1) a header block containing an HTTP-invalid field (class <bad>:
	// U upper-case name, V control octet in a value, P pseudo-header after a regular field), optionally cut short in the
	// middle of its last field (t), then (2) a valid block that the writer's encoder opens with a dynamic table size update.
	// RFC 7540: (1) complete -> stream error PROTOCOL_ERROR, (1) truncated -> connection error COMPRESSION_ERROR (4.3);
	// (2) must then read back as written: the decoder finished with block (1).
	registerOp("frtmeta2", func(a []string) string {
		var hb bytes.Buffer
		enc := xhpack.NewEncoder(&hb)
		enc.WriteField(xhpack.HeaderField{Name: ":method", Value: "GET"})
		enc.WriteField(xhpack.HeaderField{Name: ":scheme", Value: "https"})
		enc.WriteField(xhpack.HeaderField{Name: ":path", Value: "/"})
		switch a[0][0] {
		case 'U':
			enc.WriteField(xhpack.HeaderField{Name: "Bad-Name", Value: "v"})
		case 'V':
			enc.WriteField(xhpack.HeaderField{Name: "x-bad", Value: "a\x00b"})
		default:
			enc.WriteField(xhpack.HeaderField{Name: "x-regular", Value: "v"})
			enc.WriteField(xhpack.HeaderField{Name: ":authority", Value: "late.example"})
		}
		enc.WriteField(xhpack.HeaderField{Name: "x-last-field", Value: "some-longer-value-0123456789"})
		block1 := append([]byte{}, hb.Bytes()...)
		truncated := strings.HasSuffix(a[0], "t")
		if truncated {
			block1 = block1[:len(block1)-5]
		}
		hb.Reset()
		enc.SetMaxDynamicTableSize(1024)
		enc.WriteField(xhpack.HeaderField{Name: ":method", Value: "GET"})
		enc.WriteField(xhpack.HeaderField{Name: ":scheme", Value: "https"})
		enc.WriteField(xhpack.HeaderField{Name: ":path", Value: "/second"})
		block2 := append([]byte{}, hb.Bytes()...)
		var buf bytes.Buffer
		fr := http2.NewFramer(&buf, &buf)
		fr.WriteHeaders(http2.HeadersFrameParam{StreamID: 1, BlockFragment: block1, EndHeaders: true, EndStream: true})
		fr.WriteHeaders(http2.HeadersFrameParam{StreamID: 3, BlockFragment: block2, EndHeaders: true, EndStream: true})
		fr.ReadMetaHeaders = xhpack.NewDecoder(4096, nil)
		var out []string
		for i := 0; i < 2; i++ {
			f, err := fr.ReadFrame()
			if err != nil {
				out = append(out, readErrStr(err))
				if _, ok := err.(http2.StreamError); !ok {
					break // a connection error ends the connection
				}
				continue
			}
			if mh, ok := f.(*http2.MetaHeadersFrame); ok {
				out = append(out, fmt.Sprintf("meta:%d:%d", mh.StreamID, len(mh.Fields)))
			} else {
				out = append(out, "other")
			}
		}
		return strings.Join(out, " ")
	})

	register("frame", "C19: Write* parameters (boundaries), read-back oracle, reader on written / mutated / random bytes with read limits", func(c *ctx) {
		for _, bad := range []string{"U", "V", "P", "Ut", "Vt", "Pt"} {
			c.tag("meta:invalid-field-then-size-update")
			c.op("frtmeta2 " + bad)
		}
		sids := []uint32{0, 1, 2, 3, 1<<31 - 1, 1 << 31, 1<<32 - 1, 77}
		// reserved-bit / zero / maximum boundaries of every 32-bit field of the fixed-layout frames
		for _, v := range []uint32{0, 1, 1<<31 - 1, 1 << 31, 1<<31 + 1, 1<<32 - 1} {
			u := fmt.Sprintf("%08x", v)
			for _, sid := range []uint32{0, 1, 1<<31 - 1} {
				for _, raw := range []string{
					fmt.Sprintf("8 0 %d %s", sid, u),                  // WINDOW_UPDATE increment
					fmt.Sprintf("3 0 %d %s", sid, u),                  // RST_STREAM code
					fmt.Sprintf("2 0 %d %s10", sid, u),                // PRIORITY dependency
					fmt.Sprintf("7 0 %d %s00000000", sid, u),          // GOAWAY last stream id
					fmt.Sprintf("4 0 %d 0004%s", sid, u),              // SETTINGS_INITIAL_WINDOW_SIZE
					fmt.Sprintf("4 0 %d 0005%s", sid, u),              // SETTINGS_MAX_FRAME_SIZE
					fmt.Sprintf("1 36 %d %s10", sid, u),               // HEADERS with PRIORITY (+END_HEADERS)
					fmt.Sprintf("5 4 %d %s", sid, u),                  // PUSH_PROMISE promised id
				} {
					c.tag("write:RAW-boundary")
					c.op("fwr RAW " + raw)
					c.op("frdspec " + raw)
				}
			}
		}
		// every padded layout of DATA / HEADERS / PUSH_PROMISE around the pad-length and priority boundaries
		for _, tf := range [][2]int{{0, 0x08}, {0, 0x09}, {1, 0x08}, {1, 0x28}, {1, 0x2c}, {1, 0x2d}, {1, 0x0c}, {1, 0x24}, {5, 0x08}, {5, 0x0c}} {
			for _, n := range []int{0, 1, 2, 4, 5, 6, 7, 8, 12, 17} {
				for _, pad := range []int{0, 1, n - 7, n - 6, n - 5, n - 4, n - 2, n - 1, n, n + 1, 255} {
					if pad < 0 || pad > 255 {
						continue
					}
					payload := make([]byte, n)
					for k := range payload {
						payload[k] = byte(0x80 + k)
					}
					if n > 0 {
						payload[0] = byte(pad)
					}
					c.tag("read:padded-layout")
					raw := fmt.Sprintf("%d %d 1 %s", tf[0], tf[1], hx(payload))
					c.op("fwr RAW " + raw)
					c.op("frdspec " + raw)
				}
			}
		}
		for i := 0; i < c.count; i++ {
			r := c.rng.fork()
			sid := sids[r.intn(len(sids))]
			if r.chance(2, 3) {
				sid = uint32(1 + r.intn(100))
			}
			data := r.bytes([]int{0, 1, 5, 100, 1000, 16384}[r.intn(6)])
			prio := fmt.Sprintf("%d.%d.%d", []uint32{0, 1, 5, 1<<31 - 1, 1 << 31}[r.intn(5)], r.intn(2), []int{0, 1, 255}[r.intn(3)])
			if r.chance(1, 3) {
				prio = "0.0.0"
			}
			padl := []int{0, 0, 1, 7, 255}[r.intn(5)]
			var args string
			switch r.intn(12) {
			case 0:
				pad := "nil"
				if r.chance(1, 2) {
					pad = hx(make([]byte, padl))
					if r.chance(1, 8) {
						pad = hx(r.bytes(3))
					}
					if r.chance(1, 10) {
						pad = hx(make([]byte, 256))
					}
				}
				args = fmt.Sprintf("D %d %d %s %s", sid, r.intn(2), hx(data), pad)
			case 1:
				args = fmt.Sprintf("H %d %d %d %d %s %s", sid, r.intn(2), r.intn(2), padl, prio, hx(data))
			case 2:
				args = fmt.Sprintf("P %d %s", sid, prio)
			case 3:
				args = fmt.Sprintf("R %d %d", sid, []uint32{0, 1, 8, 13, 1<<32 - 1}[r.intn(5)])
			case 4:
				var ss []string
				for j, n := 0, r.intn(5); j < n; j++ {
					val := []uint32{0, 1, 65535, 1<<31 - 1}[r.intn(4)]
					if r.chance(1, 10) {
						val = 1 << 31
					}
					ss = append(ss, fmt.Sprintf("%d.%d", []int{1, 2, 3, 4, 5, 6, 9, 65535}[r.intn(8)], val))
				}
				args = "S " + dash(strings.Join(ss, ";"))
			case 5:
				args = "SA"
			case 6:
				args = fmt.Sprintf("PP %d %d %d %d %s", sid, sids[r.intn(len(sids))], r.intn(2), padl, hx(data))
			case 7:
				args = fmt.Sprintf("G %d %s", r.intn(2), hx(r.bytes(8)))
			case 8:
				args = fmt.Sprintf("GA %d %d %s", sids[r.intn(len(sids))], r.intn(14), hx(r.bytes(r.intn(20))))
			case 9:
				args = fmt.Sprintf("W %d %d", sid%(1<<31), []uint32{0, 1, 100, 1<<31 - 1, 1 << 31, 1<<32 - 1}[r.intn(6)])
			case 10:
				args = fmt.Sprintf("C %d %d %s", sid, r.intn(2), hx(data))
			default:
				args = fmt.Sprintf("RAW %d %d %d %s", []int{0, 1, 2, 3, 4, 5, 6, 7, 8, 9, 10, 200}[r.intn(12)], r.intn(256), sid, hx(r.bytes([]int{0, 1, 3, 4, 5, 6, 8, 9, 12, 40}[r.intn(10)])))
			}
			c.tag("write:" + firstWord(args))
			w := c.op("fwr " + args)
			if strings.HasPrefix(args, "RAW ") {
				c.op("frdspec " + args[4:])
			}
			if !strings.HasPrefix(args, "RAW") {
				legal := true
				if strings.HasPrefix(args, "S ") && strings.Contains(args, "4.2147483648") {
					legal = false // the writer accepts it, RFC 7540 6.5.2 says the reader must reject it
				}
				if f := strings.Fields(args); f[0] == "GA" {
					if v, _ := strconv.ParseUint(f[1], 10, 64); v > 1<<31-1 {
						legal = false // Last-Stream-ID is a 31-bit field; the writer masks the reserved bit
					}
				}
				if legal {
					c.op("frt " + args)
				}
			}
			// reader: what was written, possibly followed by more frames, mutated, truncated; several read limits
			if !strings.HasPrefix(w, "err:") {
				b := unhx(w)
				stream := append([]byte{}, b...)
				for j, n := 0, r.intn(3); j < n; j++ {
					stream = append(stream, rawFrameBytes(r)...)
				}
				switch r.intn(5) {
				case 0:
					if len(stream) > 0 {
						stream[r.intn(minI(len(stream), 12))] ^= byte(1 << r.intn(8))
					}
					c.tag("read:header-bitflip")
				case 1:
					stream = stream[:r.intn(len(stream)+1)]
					c.tag("read:truncated")
				default:
					c.tag("read:valid+raw")
				}
				c.op(fmt.Sprintf("frd max=%d b=%s", []int{16384, 0, 5, 100, 16777215}[r.intn(5)], hx(stream)))
			}
			if i%20 == 0 {
				// a valid request header list (ReadMetaHeaders validates field syntax and pseudo-headers)
				kvs := []string{hx([]byte(":method")) + "." + hx([]byte("GET")), hx([]byte(":scheme")) + "." + hx([]byte("https")), hx([]byte(":path")) + "." + hx([]byte("/p"+strconv.Itoa(i)))}
				for j, n := 0, r.rangeI(0, 12); j < n; j++ {
					val := make([]byte, r.intn(60))
					for k := range val {
						val[k] = byte(r.rangeI(33, 126))
					}
					kvs = append(kvs, hx([]byte("x-h"+strconv.Itoa(j)))+"."+hx(val))
				}
				c.op(fmt.Sprintf("frtmeta %d %s", r.rangeI(1, 6), strings.Join(kvs, ",")))
			}
		}
	})
}

func rawFrameBytes(r *rng) []byte {
	p := r.bytes([]int{0, 1, 4, 5, 6, 8, 9, 20}[r.intn(8)])
	sid := uint32(r.intn(5))
	if r.chance(1, 6) {
		sid = uint32(r.u64())
	}
	b := []byte{byte(len(p) >> 16), byte(len(p) >> 8), byte(len(p)), byte(r.intn(11)), byte(r.intn(64)), byte(sid >> 24), byte(sid >> 16), byte(sid >> 8), byte(sid)}
	return append(b, p...)
}
