//go:build verif

package main

import (
	"fmt"
	"strings"

	"github.com/wi1dcard/fingerproxy/pkg/fingerprint"
	"github.com/wi1dcard/fingerproxy/pkg/metadata"
)

func ja4Impl(rec []byte) (res string) {
	defer func() {
		if r := recover(); r != nil {
			res = "panic"
		}
	}()
	v, err := fingerprint.JA4Fingerprint(&metadata.Metadata{ClientHelloRecord: rec})
	if err != nil {
		return "err"
	}
	i := strings.LastIndexByte(v, '_')
	j := strings.LastIndexByte(v[:i], '_')
	return fmt.Sprintf("ok a=%s b=%s c=%s", hx([]byte(v[:j])), v[j+1:i], v[i+1:])
}

// bodies that utls's validators of known (non-JA4) extension types accept
func knownExt(r *rng, t uint16) Ext {
	var b []byte
	switch t {
	case 5:
		b = []byte{1, 0, 0, 0, 0}
	case 23, 18, 13172, 30032, 22:
		b = nil
	case 65281:
		b = []byte{0}
	case 35, 57:
		b = r.bytes(r.intn(20))
	case 51:
		k := r.bytes(32)
		b = append([]byte{0, 36, 0, 29, 0, 32}, k...)
		if r.chance(1, 2) { // GREASE key share first, as Chrome does
			b = append([]byte{0, 41, 0x0a, 0x0a, 0, 1, 0, 0, 29, 0, 32}, k...)
		}
	case 45:
		b = []byte{1, 1}
	case 27:
		b = []byte{2, 0, 2}
	case 21:
		b = make([]byte, r.intn(40))
	case 17513:
		b = []byte{0, 3, 2, 'h', '2'}
	case 50, 34:
		b = append([]byte{0, 4}, 4, 3, 8, 4)
		if t == 34 {
			b = append([]byte{0, 4}, 4, 3, 8, 4)
		}
	case 28:
		b = []byte{0x40, 1}
	case 41:
		id := r.bytes(r.rangeI(1, 16))
		binder := r.bytes(32)
		b = append([]byte{byte((len(id) + 6) >> 8), byte(len(id) + 6), byte(len(id) >> 8), byte(len(id))}, id...)
		b = append(b, 0, 0, 0, 1)
		b = append(b, 0, 33, 32)
		b = append(b, binder...)
	}
	return Ext{Kind: "raw", Type: t, Bytes: b}
}

var ja4KnownTypes = []uint16{5, 23, 18, 65281, 35, 51, 45, 27, 21, 17513, 50, 28, 13172, 30032, 57, 22}

// genHelloJA4: well-formed hello whose known-extension bodies utls accepts; unknown types carry random bytes.
func genHelloJA4(r *rng) *Hello {
	h := genHello(r)
	var out []Ext
	used := map[uint16]bool{}
	for _, e := range h.Exts {
		if e.Kind == "raw" && !isGreaseGo(e.Type) {
			known := false
			for _, k := range append(ja4KnownTypes, 34, 41, 17, 24, 30031, 0x3374) {
				if e.Type == k {
					known = true
				}
			}
			if known {
				e = knownExt(r, ja4KnownTypes[r.intn(len(ja4KnownTypes))])
			}
		}
		switch e.Kind {
		case "sni":
			// utls rejects an empty host name and a trailing dot; keep hosts plain
			host := strings.TrimRight(string(e.Names[0][1:]), ".")
			if host == "" {
				host = "a"
			}
			e.Names = [][]byte{append([]byte{0}, host...)}
		case "grp", "sig", "ver":
			if len(e.U16s) == 0 {
				e.U16s = []uint16{0x0403}
				if e.Kind == "ver" {
					e.U16s = []uint16{0x0304}
				}
				if e.Kind == "grp" {
					e.U16s = []uint16{29}
				}
			}
			if e.Kind == "ver" && len(e.U16s) > 127 {
				e.U16s = e.U16s[:127]
			}
		case "pts":
			if len(e.Bytes) == 0 {
				e.Bytes = []byte{0}
			}
		}
		if used[e.TypeID()] {
			continue
		}
		used[e.TypeID()] = true
		out = append(out, e)
	}
	// GREASE in signature_algorithms (RFC 8701 reserves the code points there too)
	for i := range out {
		if out[i].Kind == "sig" && r.chance(1, 3) {
			pos := r.intn(len(out[i].U16s) + 1)
			s := append([]uint16{}, out[i].U16s[:pos]...)
			s = append(s, r.pick16(greaseVals))
			out[i].U16s = append(s, out[i].U16s[pos:]...)
		}
	}
	h.Exts = out
	return h
}

func init() {
	registerOp("ja4", func(a []string) string { return ja4Impl(unhx(a[0])) })
	registerOp("ja4spec", func(a []string) string { return ja4Impl(parseHelloToken(a).Record()) })

	register("ja4", "JA4: structured hellos (known/unknown extension types, GREASE everywhere, >99 lists, ALPN shapes), mutations", func(c *ctx) {
		for i := 0; i < c.count; i++ {
			r := c.rng.fork()
			h := genHelloJA4(r)
			rec := h.Record()
			tok := h.Token()
			c.tag("ciphers:" + bucket(len(h.Ciphers)))
			if h.NoExts {
				c.tag("exts:none")
			} else {
				c.tag("exts:" + bucket(len(h.Exts)))
			}
			c.op("ser " + tok)
			res := c.op("ja4 " + hx(rec))
			c.tag("outcome:" + firstWord(res))
			c.op("ja4spec " + tok)
			if i%5 == 0 {
				var m []byte
				switch r.intn(3) {
				case 0:
					m = rec[:r.intn(len(rec)+1)]
					c.tag("kind:truncate")
				case 1:
					m = append([]byte{}, rec...)
					m[r.intn(len(m))] ^= byte(1 << r.intn(8))
					c.tag("kind:bitflip")
				default:
					m = append(append([]byte{}, rec...), r.bytes(r.rangeI(1, 9))...)
					c.tag("kind:trailing")
				}
				res := c.op("ja4 " + hx(m))
				c.tag("outcome-malformed:" + firstWord(res))
			}
		}
	})
}
