//go:build verif

package main

import (
	"fmt"
	"strings"
)

func init() {
	register("h2trx", "C12: client transport receive side: response DATA (padded or not), partial reads, early closes, closes after the response ended: connection credit ledger", func(c *ctx) {
		c.deferred = true
		// the everyday case: a response that has arrived completely, of which the application reads a little and closes
		for _, n := range []int{8192, 16384, 5000} {
			c.tag("close-after-complete-response")
			c.op(fmt.Sprintf("h2trx ev=Q,H0,D0.%d.-.1,r0.1,c0,Q,H1,D1.%d.-.1,c1,Q,H2,D2.%d.7.1,r2.100,c2", n, n, n-8))
		}
		for i := 0; i < c.count; i++ {
			r := c.rng.fork()
			var toks []string
			nq := 0
			n := r.rangeI(4, 40)
			for j := 0; j < n; j++ {
				if nq == 0 || (nq < 6 && r.chance(1, 6)) {
					toks = append(toks, "Q", fmt.Sprintf("H%d", nq))
					nq++
					continue
				}
				k := r.intn(nq)
				switch r.intn(10) {
				case 0, 1, 2, 3, 4:
					pad, pn := "-", -1
					if r.chance(1, 3) {
						pn = []int{0, 1, 7, 100, 255}[r.intn(5)]
						pad = fmt.Sprint(pn)
					}
					ln := []int{0, 1, 100, 4095, 4096, 4097, 8192, 16384}[r.intn(8)]
					if ln+pn+1 > 16384 {
						ln = 16384 - pn - 1 // the frame must fit the client's SETTINGS_MAX_FRAME_SIZE
					}
					toks = append(toks, fmt.Sprintf("D%d.%d.%s.%d", k, ln, pad, b2i(r.chance(1, 5))))
				case 5, 6, 7:
					toks = append(toks, fmt.Sprintf("r%d.%d", k, []int{1, 100, 4096, 5000, 16384, 100000}[r.intn(6)]))
				case 8:
					toks = append(toks, fmt.Sprintf("c%d", k))
				default:
					toks = append(toks, fmt.Sprintf("H%d", k))
				}
			}
			c.tag("tokens:" + bucket(len(toks)))
			c.op("h2trx ev=" + strings.Join(toks, ","))
		}
	})
}
