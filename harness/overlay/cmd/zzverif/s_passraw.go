//go:build verif

package main

import (
	"bytes"
	"fmt"
	"io"
	"strconv"
	"strings"
	"time"

	"github.com/wi1dcard/fingerproxy/pkg/http2"
	"golang.org/x/net/http2/hpack"
)

// passtr body=<n> chunk=<k> announced=<0|1> empty=<0|1>: an HTTP/2 request whose body is ended by a trailing HEADERS frame
// (END_STREAM) — the trailer fields announced in a `trailer` request header or not — written with a raw framer, because
// ordinary client stacks always announce. The backend must receive the whole body and the client a complete answer.
func init() {
	registerOp("passtr", func(a []string) string {
		kv := map[string]string{}
		for _, t := range a {
			if i := strings.IndexByte(t, '='); i > 0 {
				kv[t[:i]] = t[i+1:]
			}
		}
		n, _ := strconv.Atoi(kv["body"])
		chunk, _ := strconv.Atoi(kv["chunk"])
		if chunk <= 0 {
			chunk = 1 << 14
		}
		o := defaultE2EOpts()
		o.EnableProbe = false
		env := newE2EEnv(o)
		defer env.close()
		conn, _, neg, err := dialProxy(env, clientCfg{kind: "go", sni: "example.test", alpn: []string{"h2"}, peer: "127.0.0.1"})
		if err != nil || neg != "h2" {
			return "fail=handshake"
		}
		defer conn.Close()
		conn.SetDeadline(time.Now().Add(4 * time.Second))
		io.WriteString(conn, http2.ClientPreface)
		fr := http2.NewFramer(conn, conn)
		fr.WriteSettings()
		var hb bytes.Buffer
		enc := hpack.NewEncoder(&hb)
		fields := [][2]string{{":method", "POST"}, {":scheme", "https"}, {":path", "/upload"}, {":authority", "example.test"}, {"x-verif-tag", "passtr"}}
		if kv["announced"] == "1" {
			fields = append(fields, [2]string{"trailer", "x-checksum"})
		}
		for _, f := range fields {
			enc.WriteField(hpack.HeaderField{Name: f[0], Value: f[1]})
		}
		fr.WriteHeaders(http2.HeadersFrameParam{StreamID: 1, BlockFragment: hb.Bytes(), EndHeaders: true})
		body := passBody(n, n)
		for off := 0; off < len(body); off += chunk {
			end := off + chunk
			if end > len(body) {
				end = len(body)
			}
			fr.WriteData(1, false, body[off:end])
		}
		hb.Reset()
		if kv["empty"] != "1" {
			enc.WriteField(hpack.HeaderField{Name: "x-checksum", Value: "abc"})
		}
		fr.WriteHeaders(http2.HeadersFrameParam{StreamID: 1, BlockFragment: hb.Bytes(), EndHeaders: true, EndStream: true})
		status, done := 0, "timeout"
		dec := hpack.NewDecoder(4096, nil)
		for done == "timeout" {
			f, err := fr.ReadFrame()
			if err != nil {
				break
			}
			switch v := f.(type) {
			case *http2.SettingsFrame:
				if !v.IsAck() {
					fr.WriteSettingsAck()
				}
			case *http2.HeadersFrame:
				if v.StreamID == 1 {
					hs, _ := dec.DecodeFull(v.HeaderBlockFragment())
					for _, h := range hs {
						if h.Name == ":status" {
							status, _ = strconv.Atoi(h.Value)
						}
					}
					if v.StreamEnded() {
						done = "complete"
					}
				}
			case *http2.DataFrame:
				if v.StreamID == 1 && v.StreamEnded() {
					done = "complete"
				}
			case *http2.RSTStreamFrame:
				if v.StreamID == 1 {
					done = "reset:" + strconv.Itoa(int(v.ErrCode))
				}
			case *http2.GoAwayFrame:
				done = "goaway:" + strconv.Itoa(int(v.ErrCode))
			}
		}
		got := "backend=none"
		if br := env.backend.get("passtr"); br != nil {
			got = fmt.Sprintf("backend=%d:%s", br.BodyLen, br.BodySum)
		}
		return fmt.Sprintf("st=%d resp=%s %s", status, done, got)
	})
}
