//go:build verif

package main

import (
	"bytes"
	"crypto/md5"
	"fmt"
	"io"
	"net/http"
	"strconv"
	"strings"
	"time"

	"github.com/wi1dcard/fingerproxy/pkg/http2"
	"golang.org/x/net/http2/hpack"
)

// passwin body=<n> w0=<initial stream window> inc=<bytes per reopening> mode=<wu|settings|mixed> post=<0|1> sum=<md5>:
// an HTTP/2 client that receives a response body under a SMALL stream window and reopens it step by step — with
// WINDOW_UPDATE frames on the stream, with new SETTINGS frames changing INITIAL_WINDOW_SIZE (RFC 7540 6.9.2: the
// difference applies to every stream with an active window, also a half-closed one), or alternating — written with a
// raw framer, because ordinary client stacks only ever use WINDOW_UPDATE. post=1 keeps the request side open (a POST
// whose END_STREAM comes after the response), post=0 is a GET (stream half-closed while the response flows).
// The client must receive the whole body intact however its window was opened.
func init() {
	registerOp("passwin", func(a []string) string {
		kv := map[string]string{}
		for _, t := range a {
			if i := strings.IndexByte(t, '='); i > 0 {
				kv[t[:i]] = t[i+1:]
			}
		}
		n, _ := strconv.Atoi(kv["body"])
		w0, _ := strconv.Atoi(kv["w0"])
		inc, _ := strconv.Atoi(kv["inc"])
		if inc <= 0 {
			inc = 1 << 14
		}
		o := defaultE2EOpts()
		o.EnableProbe = false
		env := newE2EEnv(o)
		defer env.close()
		body := passBody(n, n)
		env.backend.mu.Lock()
		env.backend.respond = func(tag string, w http.ResponseWriter, r *http.Request, _ []byte) {
			w.Header().Set("Content-Length", strconv.Itoa(len(body)))
			w.WriteHeader(200)
			w.Write(body)
		}
		env.backend.mu.Unlock()
		conn, _, neg, err := dialProxy(env, clientCfg{kind: "go", sni: "example.test", alpn: []string{"h2"}, peer: "127.0.0.1"})
		if err != nil || neg != "h2" {
			return "fail=handshake"
		}
		defer conn.Close()
		io.WriteString(conn, http2.ClientPreface)
		fr := http2.NewFramer(conn, conn)
		fr.WriteSettings(http2.Setting{ID: http2.SettingInitialWindowSize, Val: uint32(w0)})
		fr.WriteWindowUpdate(0, 1<<30) // the connection window is never the limit
		var hb bytes.Buffer
		enc := hpack.NewEncoder(&hb)
		method := "GET"
		if kv["post"] == "1" {
			method = "POST"
		}
		fields := [][2]string{{":method", method}, {":scheme", "https"}, {":path", "/download"}, {":authority", "example.test"}, {"x-verif-tag", "passwin"}}
		if method == "POST" {
			fields = append(fields, [2]string{"x-verif-early", "1"})
		}
		for _, f := range fields {
			enc.WriteField(hpack.HeaderField{Name: f[0], Value: f[1]})
		}
		fr.WriteHeaders(http2.HeadersFrameParam{StreamID: 1, BlockFragment: hb.Bytes(), EndHeaders: true, EndStream: method == "GET"})
		if method == "POST" {
			fr.WriteData(1, false, []byte("x")) // the request body stays open until the response is in
		}
		frames := make(chan http2.Frame, 64)
		go func() {
			defer close(frames)
			for {
				f, err := fr.ReadFrame()
				if err != nil {
					return
				}
				switch v := f.(type) {
				case *http2.DataFrame:
					frames <- &dataCopy{sid: v.StreamID, end: v.StreamEnded(), p: append([]byte{}, v.Data()...), flow: int(v.Length)}
				case *http2.HeadersFrame:
					frames <- &hdrCopy{sid: v.StreamID, end: v.StreamEnded(), block: append([]byte{}, v.HeaderBlockFragment()...)}
				default:
					frames <- f
				}
			}
		}()
		status, done := 0, "timeout"
		dec := hpack.NewDecoder(4096, nil)
		h := md5.New()
		got, window, cur, step := 0, w0, w0, 0
		deadline := time.After(8 * time.Second)
		reopen := func() {
			how := kv["mode"]
			if how == "mixed" {
				how = []string{"settings", "wu"}[step%2]
			}
			step++
			if how == "wu" {
				fr.WriteWindowUpdate(1, uint32(inc))
			} else {
				cur += inc
				fr.WriteSettings(http2.Setting{ID: http2.SettingInitialWindowSize, Val: uint32(cur)})
			}
			window += inc
		}
	loop:
		for {
			if window == 0 && got < n {
				reopen()
			}
			select {
			case f, ok := <-frames:
				if !ok {
					done = "closed"
					break loop
				}
				switch v := f.(type) {
				case *http2.SettingsFrame:
					if !v.IsAck() {
						fr.WriteSettingsAck()
					}
				case *hdrCopy:
					if v.sid == 1 {
						hs, _ := dec.DecodeFull(v.block)
						for _, x := range hs {
							if x.Name == ":status" {
								status, _ = strconv.Atoi(x.Value)
							}
						}
						if v.end {
							done = "complete"
							break loop
						}
					}
				case *dataCopy:
					if v.sid == 1 {
						h.Write(v.p)
						got += len(v.p)
						window -= v.flow
						if window < 0 {
							done = "window-overrun"
							break loop
						}
						if v.end {
							done = "complete"
							break loop
						}
					}
				case *http2.RSTStreamFrame:
					if v.StreamID == 1 {
						done = "reset:" + strconv.Itoa(int(v.ErrCode))
						break loop
					}
				case *http2.GoAwayFrame:
					done = "goaway:" + strconv.Itoa(int(v.ErrCode))
					break loop
				}
			case <-deadline:
				done = fmt.Sprintf("stalled-after-%d-reopenings", step)
				break loop
			}
		}
		if method == "POST" && done == "complete" {
			fr.WriteData(1, true, nil)
		}
		return fmt.Sprintf("st=%d resp=%s got=%d:%x", status, done, got, h.Sum(nil))
	})
}

type dataCopy struct {
	http2.Frame
	sid  uint32
	end  bool
	p    []byte
	flow int
}

type hdrCopy struct {
	http2.Frame
	sid   uint32
	end   bool
	block []byte
}
