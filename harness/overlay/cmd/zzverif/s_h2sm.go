//go:build verif

package main

import (
	"fmt"
	"strings"
)

// generator for the stream-state-machine stream (executed by the pkg/http2 test harness)
func init() {
	register("h2sm", "C13: frame sequences over the whole alphabet against streams in every state; reactions after every frame", func(c *ctx) {
		c.deferred = true
		badRaw := []string{"Z:0.0.0.00", "Z:1.4.0.82", "Z:2.0.1.0000", "Z:2.0.0.0000000000", "Z:3.0.1.00", "Z:3.0.0.00000008", "Z:4.0.1.-", "Z:4.1.0.000000000000", "Z:4.0.0.0102",
			"Z:6.0.0.0102", "Z:6.0.1.0000000000000000", "Z:7.0.0.00", "Z:7.0.1.0000000000000000", "Z:8.0.0.00000000", "Z:8.0.1.00000000", "Z:8.0.1.000000", "Z:9.4.1.82", "Z:9.0.0.82",
			"Z:8.0.0.80000000", "Z:8.0.1.80000000", "Z:8.0.0.80000001", "Z:0.8.1.-", "Z:1.8.1.-", "Z:1.36.1.01020304", "Z:0.8.1.0501", "Z:1.12.1.0582", "Z:5.4.1.0000000282", "Z:4.0.0.000480000000",
			// HEADERS with PADDED and PRIORITY: a pad length that fits the payload as a whole but not what is left after the
			// five priority octets (R-5 < P <= R), at both ends of that range, with and without END_STREAM; padded PUSH_PROMISE
			"Z:1.44.1.04000000000f8287", "Z:1.44.1.03000000000f8287", "Z:1.44.1.07000000000f8287", "Z:1.45.1.06000000000f8287",
			"Z:1.40.1.0500000000ff82", "Z:1.44.1.0100000000ff", "Z:1.44.1.05000000000f", "Z:5.12.1.0700000002828787", "Z:5.12.1.0300000002"}
		for i := 0; i < c.count; i++ {
			r := c.rng.fork()
			maxStreams := []int{100, 100, 3, 1}[r.intn(4)]
			var toks []string
			if r.chance(9, 10) {
				toks = append(toks, "S:")
			}
			next := 1
			var open []int  // streams with a blocked handler and an open client side
			var half []int  // blocked handler, client side ended
			var gone []int  // closed / reset
			pick := func(xs []int) (int, bool) {
				if len(xs) == 0 {
					return 0, false
				}
				return xs[r.intn(len(xs))], true
			}
			n := []int{3, 8, 20, 45}[r.intn(4)]
			for j := 0; j < n; j++ {
				switch r.intn(22) {
				case 0, 1, 2, 3, 4: // a new request
					es := r.intn(2)
					mode := "br"[r.intn(2)]
					cls := []string{"q-", "q-", "q-", "q10", "q0", "C"}[r.intn(6)]
					prio := "-"
					if r.chance(1, 5) {
						prio = fmt.Sprint(r.intn(9))
					}
					toks = append(toks, fmt.Sprintf("H:%d.%d.%s.%s.%c", next, es, prio, cls, mode))
					if mode == 'b' {
						if es == 1 {
							half = append(half, next)
						} else {
							open = append(open, next)
						}
					} else {
						gone = append(gone, next)
					}
					next += 2
				case 5: // malformed / ill-shaped request on a new stream
					toks = append(toks, fmt.Sprintf("H:%d.%d.-.%s.r", next, r.intn(2), []string{"F", "B", "T", "P", "V"}[r.intn(5)]))
					gone = append(gone, next)
					next += 2
					if r.chance(1, 2) {
						// the next header block opens with a dynamic table size update: only a decoder that finished the
						// rejected block takes it
						toks = append(toks, fmt.Sprintf("M:%d", []int{2048, 4096, 0, 100}[r.intn(4)]), fmt.Sprintf("H:%d.1.-.q-.r", next))
						gone = append(gone, next)
						next += 2
					}
				case 6: // illegal stream ids for HEADERS: even, reused, going down, self-dependent priority
					switch r.intn(4) {
					case 0:
						toks = append(toks, fmt.Sprintf("H:%d.1.-.q-.r", 2+2*r.intn(5)))
					case 1:
						if s, ok := pick(gone); ok {
							toks = append(toks, fmt.Sprintf("H:%d.1.-.q-.r", s))
						}
					case 2:
						toks = append(toks, fmt.Sprintf("H:%d.1.%d.q-.b", next, next))
						gone = append(gone, next)
						next += 2
					default:
						toks = append(toks, fmt.Sprintf("H:%d.1.-.q-.r", next+4))
						gone = append(gone, next, next+2, next+4)
						next += 6
					}
				case 7, 8: // DATA on an open stream
					if s, ok := pick(open); ok {
						es := r.intn(2)
						toks = append(toks, fmt.Sprintf("D:%d.%d.%d", s, []int{0, 1, 5, 10, 11, 100}[r.intn(6)], es))
					}
				case 9: // DATA on half-closed / closed / idle streams
					switch r.intn(3) {
					case 0:
						if s, ok := pick(half); ok {
							toks = append(toks, fmt.Sprintf("D:%d.3.%d", s, r.intn(2)))
						}
					case 1:
						if s, ok := pick(gone); ok {
							toks = append(toks, fmt.Sprintf("D:%d.3.0", s))
						}
					default:
						toks = append(toks, fmt.Sprintf("D:%d.3.0", next+10+2*r.intn(3)))
					}
				case 10: // trailers: valid, invalid, without END_STREAM, duplicated, on half-closed, after an early response
					if r.chance(1, 6) {
						// the handler returns before the request ended (RST_STREAM NO_ERROR); the trailers are already on
						// their way (finding D19)
						toks = append(toks, fmt.Sprintf("H:%d.0.-.q-.r", next), fmt.Sprintf("H:%d.1.-.T.r", next))
						gone = append(gone, next)
						next += 2
						c.tag("trailers-after-early-response")
					} else if s, ok := pick(open); ok && r.chance(2, 3) {
						toks = append(toks, fmt.Sprintf("H:%d.%d.-.%s.r", s, b2i(!r.chance(1, 5)), []string{"T", "T", "t", "P"}[r.intn(4)]))
					} else if s, ok := pick(half); ok {
						toks = append(toks, fmt.Sprintf("H:%d.1.-.T.r", s))
					}
				case 11: // RST_STREAM from the client: open, half-closed, closed, idle
					all := append(append(append([]int{}, open...), half...), gone...)
					if s, ok := pick(all); ok && r.chance(4, 5) {
						toks = append(toks, fmt.Sprintf("R:%d", s))
					} else {
						toks = append(toks, fmt.Sprintf("R:%d", next+8))
					}
				case 12:
					toks = append(toks, fmt.Sprintf("P:%d.%d", 1+r.intn(next+6), r.intn(next+6)))
				case 13:
					sid := 0
					if r.chance(2, 3) {
						sid = 1 + r.intn(next+4)
					}
					toks = append(toks, fmt.Sprintf("W:%d.%d", sid, []uint32{1, 1000, 1 << 30, 1<<31 - 1}[r.intn(4)]))
				case 14:
					toks = append(toks, "G")
				case 15:
					toks = append(toks, []string{"S:", "S:3.100", "S:4.65535", "S:4.2147483647", "S:4.0", "S:2.0", "S:2.2", "S:5.16384", "S:5.100", "S:5.16777215", "S:5.16777216", "S:5.16383", "S:1.4096;1.4096", "S:8.1", "S:8.5", "S:65000.7"}[r.intn(16)])
				case 16:
					toks = append(toks, "A")
				case 17:
					if r.chance(1, 3) {
						toks = append(toks, "Y")
					} else {
						toks = append(toks, "U")
					}
				case 18:
					if r.chance(1, 2) {
						toks = append(toks, fmt.Sprintf("X:%d", 1+2*r.intn(4)))
					}
				case 19:
					if r.chance(1, 2) {
						toks = append(toks, badRaw[r.intn(len(badRaw))])
					}
				case 20:
					if r.chance(1, 4) {
						toks = append(toks, "L")
					}
				default:
					toks = append(toks, "G")
				}
			}
			if len(toks) == 0 {
				toks = append(toks, "S:")
			}
			c.tag("frames:" + bucket(len(toks)))
			c.tag(fmt.Sprintf("maxstreams:%d", maxStreams))
			c.op(fmt.Sprintf("h2sm maxstreams=%d ev=%s", maxStreams, strings.Join(toks, ",")))
			c.op(fmt.Sprintf("h2smrif maxstreams=%d ev=%s", maxStreams, strings.Join(toks, ",")))
		}
	})
}
