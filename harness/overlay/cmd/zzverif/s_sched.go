//go:build verif

package main

import (
	"fmt"
	"strings"
)

func genSchedOps(r *rng, prio bool) string {
	var ops []string
	open := []int{}
	closed := []int{}
	next := 1
	n := []int{5, 15, 40, 120}[r.intn(4)]
	for i := 0; i < n; i++ {
		switch r.intn(16) {
		case 0, 1:
			if len(open) < 12 {
				ops = append(ops, fmt.Sprintf("o%d", next))
				open = append(open, next)
				if r.chance(4, 5) {
					ops = append(ops, fmt.Sprintf("w%d.%d", next, []int{0, 1, 5, 100, 16384, 65535, 100000}[r.intn(7)]))
				}
				next += 2
			}
		case 2:
			if len(open) > 0 {
				j := r.intn(len(open))
				ops = append(ops, fmt.Sprintf("c%d", open[j]))
				closed = append(closed, open[j])
				open = append(open[:j], open[j+1:]...)
			}
		case 3, 4, 5, 6:
			if len(open) > 0 {
				ops = append(ops, fmt.Sprintf("pd%d.%d.%d", open[r.intn(len(open))], []int{0, 1, 7, 100, 16384, 16385, 40000}[r.intn(7)], r.intn(2)))
			}
		case 7:
			if len(open) > 0 {
				ops = append(ops, fmt.Sprintf("ph%d", open[r.intn(len(open))]))
			} else if len(closed) > 0 {
				ops = append(ops, fmt.Sprintf("ph%d", closed[r.intn(len(closed))])) // non-DATA for a closed stream
			}
		case 8:
			ops = append(ops, "pc")
		case 9:
			ops = append(ops, fmt.Sprintf("pr%d", 1+2*r.intn(8)))
		case 10:
			if len(open) > 0 {
				ops = append(ops, fmt.Sprintf("w%d.%d", open[r.intn(len(open))], []int{1, 10, 1000, 20000}[r.intn(4)]))
			}
		case 11:
			ops = append(ops, fmt.Sprintf("W%d", []int{1, 100, 20000, -30000, -70000}[r.intn(5)]))
		case 12:
			if r.chance(1, 3) {
				ops = append(ops, fmt.Sprintf("m%d", []int{16384, 1, 100, 20000}[r.intn(4)]))
			}
			if prio {
				sid := 1 + 2*r.intn(12)
				dep := []int{0, 1 + 2*r.intn(12), sid}[r.intn(3)]
				ops = append(ops, fmt.Sprintf("a%d.%d.%d.%d", sid, dep, []int{0, 15, 255}[r.intn(3)], r.intn(2)))
			}
		default:
			ops = append(ops, "x")
		}
	}
	for i := 0; i < 6+r.intn(10); i++ {
		ops = append(ops, "x")
	}
	return strings.Join(ops, ";")
}

// genPrioOps: at most 11 stream ids, so that no node ever has more than 12 kids (sort.Sort is insertion sort there)
func genPrioOps(r *rng, maxIdle int) string {
	var ops []string
	open := []int{}
	closed := []int{}
	ids := []int{1, 3, 5, 7, 9, 11, 13, 15, 17, 19, 21}
	used := map[int]bool{}
	if maxIdle > 0 && maxIdle < len(ids) && r.chance(1, 4) {
		// fill the idle list, then let a NEW stream depend on the oldest idle stream — the one that is evicted to make room
		for j := 0; j < maxIdle; j++ {
			ops = append(ops, fmt.Sprintf("a%d.0.%d.0", ids[j], []int{15, 200}[r.intn(2)]))
		}
		nw := ids[maxIdle]
		ops = append(ops, fmt.Sprintf("a%d.%d.15.%d", nw, ids[r.intn(2)%maxIdle], r.intn(2)), fmt.Sprintf("o%d", nw), fmt.Sprintf("w%d.16384", nw), fmt.Sprintf("ph%d", nw), "x", "x")
		open = append(open, nw)
		used[nw] = true
	}
	if maxIdle > 0 && len(open) == 0 && r.chance(1, 5) {
		// an idle node for a stream that is not open yet (PRIORITY came first), an open stream made dependent on it, and
		// then that stream opened as one PUSHED by its own dependant
		p, q := ids[r.intn(4)], ids[4+r.intn(4)]
		ops = append(ops, fmt.Sprintf("a%d.0.15.0", p), fmt.Sprintf("o%d", q), fmt.Sprintf("a%d.%d.15.%d", q, p, r.intn(2)),
			fmt.Sprintf("o%d.%d", p, q), fmt.Sprintf("w%d.16384", p), fmt.Sprintf("w%d.16384", q), fmt.Sprintf("pd%d.100.0", p), fmt.Sprintf("pd%d.100.0", q), "x", "x")
		open = append(open, p, q)
		used[p], used[q] = true, true
	}
	n := []int{5, 15, 40, 120}[r.intn(4)]
	adjust := func() {
		sid := ids[r.intn(len(ids))]
		dep := []int{0, ids[r.intn(len(ids))], sid, 23}[r.intn(4)]
		ops = append(ops, fmt.Sprintf("a%d.%d.%d.%d", sid, dep, []int{0, 15, 15, 16, 200, 255}[r.intn(6)], r.intn(2)))
	}
	for i := 0; i < n; i++ {
		switch r.intn(18) {
		case 0, 1, 2:
			sid := ids[r.intn(len(ids))]
			if !used[sid] || r.chance(1, 10) { // sometimes re-open a closed / open id (panic or re-creation)
				if r.chance(1, 3) {
					// a pushed stream: it is opened with the id of its associated stream (known, idle, closed or unknown) —
					// also when an idle node for it exists already, possibly with the pusher depending on that very node
					ops = append(ops, fmt.Sprintf("o%d.%d", sid, []int{ids[r.intn(len(ids))], ids[r.intn(len(ids))], 0, 23}[r.intn(4)]))
				} else {
					ops = append(ops, fmt.Sprintf("o%d", sid))
				}
				if !used[sid] {
					open = append(open, sid)
				}
				used[sid] = true
				if r.chance(4, 5) {
					ops = append(ops, fmt.Sprintf("w%d.%d", sid, []int{0, 1, 5, 100, 16384, 65535, 100000}[r.intn(7)]))
				}
			}
		case 3:
			if len(open) > 0 {
				j := r.intn(len(open))
				ops = append(ops, fmt.Sprintf("c%d", open[j]))
				closed = append(closed, open[j])
				open = append(open[:j], open[j+1:]...)
			} else if r.chance(1, 4) {
				ops = append(ops, fmt.Sprintf("c%d", ids[r.intn(len(ids))])) // interface violation: panics
			}
		case 4, 5, 6, 7:
			if len(open) > 0 {
				ops = append(ops, fmt.Sprintf("pd%d.%d.%d", open[r.intn(len(open))], []int{0, 1, 7, 100, 1024, 1025, 16384, 16385, 40000}[r.intn(9)], r.intn(2)))
			}
		case 8:
			if len(open) > 0 {
				ops = append(ops, fmt.Sprintf("ph%d", open[r.intn(len(open))]))
			} else if len(closed) > 0 {
				ops = append(ops, fmt.Sprintf("ph%d", closed[r.intn(len(closed))]))
			}
		case 9:
			ops = append(ops, []string{"pc", fmt.Sprintf("pr%d", ids[r.intn(len(ids))])}[r.intn(2)])
		case 10:
			if len(open) > 0 {
				ops = append(ops, fmt.Sprintf("w%d.%d", open[r.intn(len(open))], []int{1, 10, 1000, 20000}[r.intn(4)]))
			}
		case 11:
			ops = append(ops, fmt.Sprintf("W%d", []int{1, 100, 20000, -30000, -70000}[r.intn(5)]))
		case 12:
			if r.chance(1, 3) {
				ops = append(ops, fmt.Sprintf("m%d", []int{16384, 1, 100, 512, 20000}[r.intn(5)]))
			} else {
				adjust()
			}
		case 13, 14:
			adjust()
		default:
			ops = append(ops, "x")
		}
	}
	for i := 0; i < 6+r.intn(10); i++ {
		ops = append(ops, "x")
	}
	return strings.Join(ops, ";")
}

func init() {
	register("prio", "C20: operation sequences against the real priority write scheduler (tree, sibling order, throttling, retention lists)", func(c *ctx) {
		c.deferred = true
		// DEEP dependency chains (every node has one child, so sibling sorting plays no part): k open streams, each made
		// dependent on the previous one, then the FIRST made dependent on the LAST (RFC 7540 5.3.3: the cycle must be broken
		// by moving the last one up first), a frame queued on every stream, and enough Pops to drain them all
		for _, ke := range [][2]int{{12, 0}, {101, 0}, {102, 0}, {103, 1}, {130, 1}, {249, 0}} {
			k, excl := ke[0], ke[1]
			var ops []string
			for j := 0; j < k; j++ {
				ops = append(ops, fmt.Sprintf("o%d", 1+2*j), fmt.Sprintf("w%d.16384", 1+2*j))
				if j > 0 {
					ops = append(ops, fmt.Sprintf("a%d.%d.15.0", 1+2*j, 2*j-1))
				}
			}
			ops = append(ops, fmt.Sprintf("a1.%d.15.%d", 2*k-1, excl))
			for j := 0; j < k; j++ {
				ops = append(ops, fmt.Sprintf("ph%d", 1+2*j))
			}
			for j := 0; j < k+4; j++ {
				ops = append(ops, "x")
			}
			c.tag("deep-dependency-chain")
			c.op(fmt.Sprintf("sched kind=prio:10:10:0 ops=%s", strings.Join(ops, ";")))
			c.op(fmt.Sprintf("schedtrace kind=prio:10:10:0 ops=%s", strings.Join(ops, ";")))
		}
		for i := 0; i < c.count; i++ {
			r := c.rng.fork()
			maxIdle := []int{0, 1, 2, 4, 10}[r.intn(5)]
			kind := fmt.Sprintf("prio:%d:%d:%d", []int{0, 1, 2, 4, 10}[r.intn(5)], maxIdle, r.intn(2))
			if strings.HasSuffix(kind, ":1") && r.chance(1, 3) {
				// the throttle limit as it stands after ~2^21 consecutive out-of-order Pops (+1024 each): at the int32 boundary
				kind += fmt.Sprintf(":%d", []int{2147483647, 2147483647 - 1000, 2147483647 - 1023, 2147483647 - 1024, 2147483647 - 2047}[r.intn(5)])
				c.tag("throttle-limit-near-int32-max")
			}
			c.tag("kind:" + kind[:4])
			ops := genPrioOps(r, maxIdle)
			if strings.Count(kind, ":") == 4 {
				// ... and the run goes on out of order: a stream with data below an open ancestor that has none
				ops = "o1;o3;a3.1.15.0;w3.65535;pd3.3000.0;pd3.3000.0;pd3.3000.1;x;x;x;x;" + ops
			}
			c.tag("ops:" + bucket(strings.Count(ops, ";")+1))
			c.op(fmt.Sprintf("sched kind=%s ops=%s", kind, ops))
			c.op(fmt.Sprintf("schedtrace kind=%s ops=%s", kind, ops)) // oracle: the trace specification judges the answers
		}
	})
	register("sched", "C20/C12: operation sequences against the real round-robin and random write schedulers", func(c *ctx) {
		c.deferred = true
		for i := 0; i < c.count; i++ {
			r := c.rng.fork()
			kind := []string{"rr", "rr", "random"}[r.intn(3)]
			c.tag("kind:" + kind)
			ops := genSchedOps(r, false)
			c.op(fmt.Sprintf("sched kind=%s ops=%s", kind, ops))
			c.op(fmt.Sprintf("schedtrace kind=%s ops=%s", kind, ops))
		}
	})
}
