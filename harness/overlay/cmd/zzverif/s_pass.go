//go:build verif

package main

// Stream `pass` (C08): requests with generated methods, paths, queries, header sets, bodies (0 .. several MiB, sent
// in arbitrary pieces, with and without Content-Length, with trailers) go through the REAL proxy stack over
// HTTP/1.1 and HTTP/2 to a backend that answers with a scripted status, header set, streamed body and trailers.
// The answer reports the request as the backend received it and the response as the client received it.
//
//	pass proto=h1|h2 ph=0|1 conc=0|1 reqs=<req>/<resp>;<req>/<resp>...
//	req  = method.hexpath.hexquery.hexhost.hdrs.bodylen.bodyseed.pieces.cl.trailers
//	resp = status.hdrs.bodylen.bodyseed.pieces.flush.trailers
//	hdrs = hexname:hexvalue|hexname:hexvalue...   (or -)

import (
	"bytes"
	"context"
	"crypto/md5"
	"crypto/tls"
	"crypto/x509"
	"fmt"
	"io"
	"net"
	"net/http"
	"net/textproto"
	"sort"
	"strconv"
	"strings"
	"sync"
	"time"

	xhttp2 "golang.org/x/net/http2"
)

type passHalf struct {
	hdrs     [][2]string
	bodyLen  int
	bodySeed int
	pieces   int
	flag     bool // request: Content-Length known; response: flush between pieces
	trailers [][2]string
}

type passReq struct {
	method, path, query, host string
	req                       passHalf
	status                    int
	resp                      passHalf
	tag                       string
}

func passBody(seed, n int) []byte {
	b := make([]byte, n)
	x := uint32(seed)*2654435761 + 12345
	for i := range b {
		x = x*1664525 + 1013904223
		b[i] = byte(x >> 24)
	}
	return b
}

// pieceSizes: how a body of n bytes is cut into successive writes/reads
func pieceSizes(mode, seed, n int) []int {
	var out []int
	r := newRng(uint64(seed)*77 + uint64(mode))
	rem := n
	for rem > 0 {
		var k int
		switch mode {
		case 0:
			k = rem
		case 1:
			k = 1
			if n-rem >= 48 {
				k = rem
			}
		case 2:
			k = 1 + r.intn(4096)
		case 3:
			k = 16384
		case 4:
			k = 1 + r.intn(1<<17)
		case 5:
			k = []int{1, 16383, 16384, 16385, 65535, 65536}[r.intn(6)]
		default:
			k = 1 << 20
		}
		if k > rem {
			k = rem
		}
		out = append(out, k)
		rem -= k
	}
	return out
}

type pieceReader struct {
	data   []byte
	sizes  []int
	onEOF  func()
	closed bool
}

func (p *pieceReader) Read(b []byte) (int, error) {
	if len(p.data) == 0 {
		if p.onEOF != nil {
			p.onEOF()
			p.onEOF = nil
		}
		return 0, io.EOF
	}
	k := len(p.data)
	if len(p.sizes) > 0 {
		k = p.sizes[0]
	}
	if k > len(b) {
		k = len(b)
	}
	if k > len(p.data) {
		k = len(p.data)
	}
	copy(b, p.data[:k])
	p.data = p.data[k:]
	if len(p.sizes) > 0 {
		p.sizes[0] -= k
		if p.sizes[0] <= 0 {
			p.sizes = p.sizes[1:]
		}
	}
	return k, nil
}
func (p *pieceReader) Close() error { p.closed = true; return nil }

func parsePassHdrs(s string) [][2]string {
	if s == "-" || s == "" {
		return nil
	}
	var out [][2]string
	for _, e := range strings.Split(s, "|") {
		q := strings.SplitN(e, ":", 2)
		out = append(out, [2]string{string(unhx(q[0])), string(unhx(q[1]))})
	}
	return out
}

func fmtPassHdrs(h [][2]string) string {
	if len(h) == 0 {
		return "-"
	}
	var p []string
	for _, e := range h {
		p = append(p, hx([]byte(e[0]))+":"+hx([]byte(e[1])))
	}
	return strings.Join(p, "|")
}

func parsePass(a []string) (proto string, ph, conc bool, reqs []*passReq) {
	for _, t := range a {
		i := strings.IndexByte(t, '=')
		if i < 0 {
			continue
		}
		k, v := t[:i], t[i+1:]
		switch k {
		case "proto":
			proto = v
		case "ph":
			ph = v == "1"
		case "conc":
			conc = v == "1"
		case "reqs":
			for j, rs := range strings.Split(v, ";") {
				halves := strings.Split(rs, "/")
				p := strings.Split(halves[0], ".")
				q := strings.Split(halves[1], ".")
				at := func(s string) int { n, _ := strconv.Atoi(s); return n }
				r := &passReq{method: p[0], path: string(unhx(p[1])), query: string(unhx(p[2])), host: string(unhx(p[3])),
					req:    passHalf{hdrs: parsePassHdrs(p[4]), bodyLen: at(p[5]), bodySeed: at(p[6]), pieces: at(p[7]), flag: p[8] == "1", trailers: parsePassHdrs(p[9])},
					status: at(q[0]),
					resp:   passHalf{hdrs: parsePassHdrs(q[1]), bodyLen: at(q[2]), bodySeed: at(q[3]), pieces: at(q[4]), flag: q[5] == "1", trailers: parsePassHdrs(q[6])},
					tag:    fmt.Sprintf("p%d", j)}
				reqs = append(reqs, r)
			}
		}
	}
	return
}

func md5hex(b []byte) string { return fmt.Sprintf("%x", md5.Sum(b)) }

// canonical rendering of the values found under the given names
func passNames(h [][2]string) []string {
	seen := map[string]bool{}
	var out []string
	for _, e := range h {
		k := textproto.CanonicalMIMEHeaderKey(e[0])
		if !seen[k] {
			seen[k] = true
			out = append(out, k)
		}
	}
	sort.Slice(out, func(i, j int) bool { return hx([]byte(out[i])) < hx([]byte(out[j])) })
	return out
}

func passRender(names []string, got http.Header) string {
	var p []string
	for _, k := range names {
		p = append(p, hx([]byte(k))+"="+hexvals(got, k))
	}
	return strings.Join(p, ",")
}

func passExtras(names []string, got http.Header, ignore map[string]bool) string {
	in := map[string]bool{}
	for _, k := range names {
		in[k] = true
	}
	var ex []string
	for k := range got {
		if !in[k] && !ignore[k] {
			ex = append(ex, hx([]byte(k)))
		}
	}
	sort.Strings(ex)
	return strings.Join(ex, ",")
}

func runPass(a []string) string {
	proto, ph, conc, reqs := parsePass(a)
	o := defaultE2EOpts()
	o.PreserveHost = ph
	o.EnableProbe = false
	env := newE2EEnv(o)
	defer env.close()
	script := map[string]*passReq{}
	for _, r := range reqs {
		script[r.tag] = r
	}
	env.backend.mu.Lock()
	env.backend.respond = func(tag string, w http.ResponseWriter, r *http.Request, body []byte) {
		sc := script[tag]
		if sc == nil {
			w.WriteHeader(599)
			return
		}
		for _, e := range sc.resp.hdrs {
			w.Header()[textproto.CanonicalMIMEHeaderKey(e[0])] = append(w.Header()[textproto.CanonicalMIMEHeaderKey(e[0])], e[1])
		}
		// how the backend announces its trailers: all of them up front, only the first name (the rest arrive
		// unannounced), or none
		announce := (sc.resp.bodySeed / 2) % 3
		announced := map[string]bool{}
		if len(sc.resp.trailers) > 0 && announce != 2 {
			var names []string
			for _, e := range sc.resp.trailers {
				if k := textproto.CanonicalMIMEHeaderKey(e[0]); !announced[k] {
					announced[k] = true
					names = append(names, k)
					if announce == 1 {
						break
					}
				}
			}
			w.Header()["Trailer"] = []string{strings.Join(names, ", ")}
		}
		if len(sc.resp.trailers) == 0 && sc.resp.bodySeed%2 == 0 && sc.status != 204 && sc.status != 304 {
			// a declared length: the proxy's response writer checks every write against it
			w.Header()["Content-Length"] = []string{strconv.Itoa(sc.resp.bodyLen)}
		}
		w.WriteHeader(sc.status)
		data := passBody(sc.resp.bodySeed, sc.resp.bodyLen)
		fl, _ := w.(http.Flusher)
		for _, k := range pieceSizes(sc.resp.pieces, sc.resp.bodySeed, len(data)) {
			w.Write(data[:k])
			data = data[k:]
			if sc.resp.flag && fl != nil {
				fl.Flush()
			}
		}
		if len(sc.resp.trailers) > 0 && announce != 0 && fl != nil {
			// net/http's own HTTP/1.1 server can only send unannounced trailers on a response that is already chunked
			fl.Flush()
		}
		for _, e := range sc.resp.trailers {
			k := textproto.CanonicalMIMEHeaderKey(e[0])
			if !announced[k] {
				k = http.TrailerPrefix + k
			}
			w.Header()[k] = append(w.Header()[k], e[1])
		}
	}
	env.backend.mu.Unlock()

	pool := x509.NewCertPool()
	pool.AppendCertsFromPEM(env.certPEM)
	var rt http.RoundTripper
	dial := func(network, addr string, cfg *tls.Config) (net.Conn, error) {
		d := &net.Dialer{Timeout: 5 * time.Second}
		return tls.DialWithDialer(d, "tcp", env.addr, cfg)
	}
	if proto == "h2" {
		t := &xhttp2.Transport{TLSClientConfig: &tls.Config{RootCAs: pool, ServerName: "example.test", NextProtos: []string{"h2"}},
			DisableCompression: true, DialTLS: dial}
		defer t.CloseIdleConnections()
		rt = t
	} else {
		t := &http.Transport{TLSClientConfig: &tls.Config{RootCAs: pool, ServerName: "example.test", NextProtos: []string{"http/1.1"}},
			DisableCompression: true, ForceAttemptHTTP2: false,
			DialTLS: func(network, addr string) (net.Conn, error) {
				return dial(network, addr, &tls.Config{RootCAs: pool, ServerName: "example.test", NextProtos: []string{"http/1.1"}})
			}}
		defer t.CloseIdleConnections()
		rt = t
	}
	res := make([]string, len(reqs))
	do := func(i int, r *passReq) {
		u := "https://" + env.addr + r.path
		if r.query != "" {
			u += "?" + r.query
		}
		sent := passBody(r.req.bodySeed, r.req.bodyLen)
		var body io.ReadCloser
		req, err := http.NewRequest(r.method, u, nil)
		if err != nil {
			res[i] = "newreq-error:" + strings.ReplaceAll(err.Error(), " ", "_")
			return
		}
		if len(sent) > 0 || len(r.req.trailers) > 0 {
			pr := &pieceReader{data: sent, sizes: pieceSizes(r.req.pieces, r.req.bodySeed, len(sent))}
			if len(r.req.trailers) > 0 {
				req.Trailer = http.Header{}
				for _, e := range r.req.trailers {
					req.Trailer[textproto.CanonicalMIMEHeaderKey(e[0])] = nil
				}
				pr.onEOF = func() {
					for _, e := range r.req.trailers {
						k := textproto.CanonicalMIMEHeaderKey(e[0])
						req.Trailer[k] = append(req.Trailer[k], e[1])
					}
				}
			}
			body = pr
			req.Body = body
			req.ContentLength = -1
			if r.req.flag && len(r.req.trailers) == 0 {
				req.ContentLength = int64(len(sent))
			}
		}
		req.Host = r.host
		for _, e := range r.req.hdrs {
			req.Header[e[0]] = append(req.Header[e[0]], e[1])
		}
		req.Header["X-Verif-Tag"] = []string{r.tag}
		if _, ok := req.Header["User-Agent"]; !ok {
			req.Header["User-Agent"] = []string{"verif-pass/1"}
		}
		ctx, cancel := context.WithTimeout(context.Background(), 20*time.Second)
		defer cancel()
		req = req.WithContext(ctx)
		resp, err := rt.RoundTrip(req)
		if err != nil {
			res[i] = "roundtrip-error:" + strings.ReplaceAll(err.Error(), " ", "_")
			return
		}
		got, rerr := io.ReadAll(resp.Body)
		resp.Body.Close()
		br := env.backend.get(r.tag)
		var sb strings.Builder
		if br == nil {
			sb.WriteString("nobackend")
			if len(got) < 200 {
				sb.WriteString(":" + hx(got))
			}
		} else {
			host := hx([]byte(br.Host))
			if br.Host == env.backend.ln.Addr().String() {
				host = "backend"
			}
			names := passNames(r.req.hdrs)
			fmt.Fprintf(&sb, "%s;%s;%s;H[%s];X[%s];B%d:%s;T[%s]", br.Method, hx([]byte(br.URI)), host, passRender(names, br.Header),
				passExtras(names, br.Header, map[string]bool{"Content-Length": true}), br.BodyLen, br.BodySum,
				passRender(passNames(r.req.trailers), br.Trailer))
		}
		rn := passNames(r.resp.hdrs)
		e := ""
		if rerr != nil {
			e = ";readerr:" + strings.ReplaceAll(rerr.Error(), " ", "_")
		}
		fmt.Fprintf(&sb, "/%d;H[%s];B%d:%s;T[%s]%s", resp.StatusCode, passRender(rn, resp.Header), len(got), md5hex(got),
			passRender(passNames(r.resp.trailers), resp.Trailer), e)
		res[i] = sb.String()
		_ = bytes.MinRead
	}
	if conc {
		var wg sync.WaitGroup
		for i, r := range reqs {
			wg.Add(1)
			go func(i int, r *passReq) { defer wg.Done(); do(i, r) }(i, r)
		}
		wg.Wait()
	} else {
		// a sequential scenario stops after two exchanges in a row that did not complete (each costs its 20 s timeout; the
		// answer is a mismatch already): a stalled connection must not turn a check into a half-hour run
		fails := 0
		for i, r := range reqs {
			if fails >= 2 {
				res[i] = "skipped-after-two-failed-exchanges"
				continue
			}
			do(i, r)
			if strings.HasPrefix(res[i], "roundtrip-error:") {
				fails++
			} else {
				fails = 0
			}
		}
	}
	var out []string
	for i, s := range res {
		out = append(out, fmt.Sprintf("Q%d=%s", i, s))
	}
	return strings.Join(out, " ")
}

var passReqNames = []string{"X-A", "x-lower-case", "Accept", "Accept-Language", "Authorization", "Content-Type", "X-Empty", "Referer",
	"Cache-Control", "X-Long", "X-Rep", "X-Rep", "Cookie", "If-None-Match", "X-Custom-Thing", "Origin", "X-Forwarded-Server", "Via", "Range"}
var passRespNames = []string{"X-R-A", "Content-Type", "Set-Cookie", "Set-Cookie", "Cache-Control", "Location", "X-R-Empty", "Etag",
	"X-R-Long", "Vary", "X-R-Rep", "X-R-Rep", "Content-Language", "Www-Authenticate", "Via", "Server"}

func genPassValue(r *rng, name string) string {
	switch {
	case strings.Contains(name, "Empty"):
		return ""
	case strings.Contains(name, "Long"):
		n := []int{100, 1000, 4000, 8000}[r.intn(4)]
		return strings.Repeat("L", n)
	case name == "Content-Type":
		return []string{"text/plain", "application/json; charset=utf-8", "application/octet-stream", "multipart/form-data; boundary=x"}[r.intn(4)]
	case name == "Range":
		return "bytes=0-99"
	}
	pool := []string{"v", "a b c", "a, b", "\"quoted\"", "x=1; y=2", "ünï", "  padded-inner  x", "0", "close", "trailers", "gzip", "W/\"abc\"", "https://o.example/x?y=1&z=2"}
	return strings.TrimSpace(pool[r.intn(len(pool))]) + strconv.Itoa(r.intn(100))
}

func genPassHalf(r *rng, names []string, hop [][2]string, maxBody int) passHalf {
	var h passHalf
	n := r.intn(7)
	for i := 0; i < n; i++ {
		nm := names[r.intn(len(names))]
		h.hdrs = append(h.hdrs, [2]string{nm, genPassValue(r, nm)})
	}
	if r.chance(1, 3) {
		a := r.intn(len(hop))
		h.hdrs = append(h.hdrs, hop[a])
		if b := r.intn(len(hop)); b != a && r.chance(1, 2) {
			h.hdrs = append(h.hdrs, hop[b])
		}
	}
	switch r.intn(10) {
	case 0, 1, 2:
		h.bodyLen = 0
	case 3, 4:
		h.bodyLen = 1 + r.intn(200)
	case 5, 6:
		h.bodyLen = 1 + r.intn(70000)
	case 7:
		h.bodyLen = []int{1023, 1024, 1025, 16383, 16384, 16385, 65535, 65536, 65537, 1 << 20}[r.intn(10)]
	default:
		h.bodyLen = 1 + r.intn(maxBody)
	}
	h.bodySeed = r.intn(1 << 20)
	h.pieces = r.intn(7)
	if h.bodyLen > 300000 && h.pieces == 1 {
		h.pieces = 3
	}
	h.flag = r.chance(1, 2)
	if r.chance(1, 4) {
		k := 1 + r.intn(3)
		for i := 0; i < k; i++ {
			h.trailers = append(h.trailers, [2]string{[]string{"X-Trailer-A", "X-Checksum", "Server-Timing", "X-Count"}[r.intn(4)], "t" + strconv.Itoa(r.intn(1000))})
		}
	}
	return h
}

// backend status codes of the pass-through scenarios (a body is scripted for all of them except 204 and 304)
var passStatuses = []int{200, 200, 200, 201, 202, 203, 204, 205, 205, 206, 207, 208, 226, 299, 300, 301, 302, 303, 304, 305, 307, 308, 399, 400, 401, 403, 404,
	405, 409, 410, 416, 418, 421, 425, 429, 451, 499, 500, 501, 502, 503, 504, 511, 599, 600, 799, 999}

func init() {
	registerOp("pass", runPass)
	register("pass", "C08: request / response pass-through through the real proxy stack (both protocols, bodies up to MiBs in pieces, trailers, concurrency)", func(c *ctx) {
		// HTTP/2 request bodies ended by a trailing HEADERS frame, trailer fields announced or not, empty trailer block or not
		for _, body := range []int{0, 1, 5000, 70000} {
			for _, ann := range []int{0, 1} {
				for _, empty := range []int{0, 1} {
					c.tag("h2-body-ended-by-trailers")
					c.op(fmt.Sprintf("passtr body=%d chunk=%d announced=%d empty=%d sum=%s", body, []int{1 << 14, 1000}[(body+ann)%2], ann, empty, sum(passBody(body, body))))
				}
			}
		}
		// HTTP/2 response bodies received under a small stream window that the client reopens with WINDOW_UPDATE frames, with
		// SETTINGS frames changing INITIAL_WINDOW_SIZE, or both in turn; the stream half-closed (GET) or still open (POST)
		for _, mode := range []string{"wu", "settings", "mixed"} {
			for _, post := range []int{0, 1} {
				for _, sz := range [][3]int{{200000, 16384, 65536}, {70000, 1, 30000}, {5000, 0, 1000}} {
					c.tag("h2-response-under-reopened-window:" + mode)
					c.op(fmt.Sprintf("passwin body=%d w0=%d inc=%d mode=%s post=%d sum=%s", sz[0], sz[1], sz[2], mode, post, sum(passBody(sz[0], sz[0]))))
				}
			}
		}
		for i := 0; i < c.count; i++ {
			r := c.rng.fork()
			proto := []string{"h1", "h2"}[r.intn(2)]
			n := 1
			if r.chance(1, 3) {
				n = 2 + r.intn(6)
			}
			conc := n > 1 && r.chance(2, 3)
			maxBody := 300000
			if c.tier == "thorough" || r.chance(1, 10) {
				maxBody = 5 << 20
			}
			soak := i%40 == 7
			sweep := i%40 == 3
			if sweep {
				proto, n, conc = []string{"h2", "h1"}[(i/40)%2], len(passStatuses), false
				maxBody = 20000
				c.tag("status-sweep")
			}
			if soak {
				proto, n, conc = "h2", 70+r.intn(20), r.chance(1, 3)
				c.tag("soak")
			}
			var parts []string
			for k := 0; k < n; k++ {
				method := []string{"GET", "POST", "PUT", "DELETE", "PATCH", "OPTIONS", "HEAD", "POST"}[r.intn(8)]
				path := []string{"/", "/a/b/c", "/a%20b", "/x/../y", "//double", "/with;param", "/ünï", "/a/b/", "/very/" + strings.Repeat("long/", 40)}[r.intn(9)]
				if path == "/ünï" {
					path = "/%C3%BCn%C3%AF"
				}
				query := []string{"", "a=1", "a=1&b=2&a=3", "q=%20x%26y", "raw;semi=1", "empty=", "k"}[r.intn(7)]
				host := []string{"example.test", "example.test:8443", "other.example", "UPPER.example", "127.0.0.1:9"}[r.intn(5)]
				// hop-by-hop request headers only where the client stack transmits them verbatim
				hop := [][2]string{{"Proxy-Authorization", "Basic eDp5"}, {"Te", "trailers"}}
				if proto == "h1" {
					hop = append(hop, [2]string{"Keep-Alive", "timeout=5"}, [2]string{"Connection", "X-Drop-Me"}, [2]string{"X-Drop-Me", "1"},
						[2]string{"Connection", "keep-alive, X-Drop-2"}, [2]string{"X-Drop-2", "2"}, [2]string{"Proxy-Connection", "keep-alive"})
				}
				rq := genPassHalf(r.fork(), passReqNames, hop, maxBody)
				if sweep {
					method = []string{"GET", "POST"}[r.intn(2)]
				}
				if soak {
					method = "POST"
					rq.bodyLen, rq.pieces, rq.trailers = 16384+r.intn(20000), r.intn(4), nil
				}
				if method == "GET" || method == "HEAD" || method == "OPTIONS" || method == "DELETE" {
					if r.chance(3, 4) {
						rq.bodyLen = 0
						rq.trailers = nil
					}
				}
				rhop := [][2]string{{"Keep-Alive", "timeout=3"}, {"Connection", "X-Resp-Drop"}, {"X-Resp-Drop", "1"}, {"Proxy-Authenticate", "Basic realm=x"}}
				rs := genPassHalf(r.fork(), passRespNames, rhop, maxBody)
				if soak {
					rs.bodyLen, rs.trailers = r.intn(300), nil
				}
				status := passStatuses[r.intn(len(passStatuses))]
				if sweep {
					// every status code of the list once, each with a response body where the protocol allows one
					status = passStatuses[k]
					if rs.bodyLen == 0 {
						rs.bodyLen = 1 + r.intn(3000)
					}
				}
				if status == 204 || status == 304 || method == "HEAD" {
					rs.bodyLen = 0
					rs.trailers = nil
				}
				if status == 304 {
					// the BACKEND's own net/http server suppresses Content-Type on 304 (RFC 7232 4.1): not scripted
					var keep [][2]string
					for _, e := range rs.hdrs {
						if e[0] != "Content-Type" {
							keep = append(keep, e)
						}
					}
					rs.hdrs = keep
				}
				c.tag("proto:" + proto)
				c.tag("reqbody:" + bucket(rq.bodyLen))
				c.tag("respbody:" + bucket(rs.bodyLen))
				c.tag(fmt.Sprintf("status:%dxx", status/100))
				if len(rq.trailers) > 0 {
					c.tag("req-trailers")
				}
				if len(rs.trailers) > 0 {
					c.tag("resp-trailers")
				}
				// the md5 fields are the digests of the bodies as GENERATED (what is sent); the executor recomputes the
				// bodies from the seeds and reports the digests of what ARRIVED
				parts = append(parts, fmt.Sprintf("%s.%s.%s.%s.%s.%d.%d.%d.%d.%s.%s/%d.%s.%d.%d.%d.%d.%s.%s", method, hx([]byte(path)), hx([]byte(query)),
					hx([]byte(host)), fmtPassHdrs(rq.hdrs), rq.bodyLen, rq.bodySeed, rq.pieces, b2i(rq.flag), fmtPassHdrs(rq.trailers),
					md5hex(passBody(rq.bodySeed, rq.bodyLen)),
					status, fmtPassHdrs(rs.hdrs), rs.bodyLen, rs.bodySeed, rs.pieces, b2i(rs.flag), fmtPassHdrs(rs.trailers),
					md5hex(passBody(rs.bodySeed, rs.bodyLen))))
			}
			c.tag("reqs:" + bucket(n))
			if conc {
				c.tag("concurrent")
			}
			c.op(fmt.Sprintf("pass proto=%s ph=%d conc=%d reqs=%s", proto, r.intn(2), b2i(conc), strings.Join(parts, ";")))
		}
	})
}
