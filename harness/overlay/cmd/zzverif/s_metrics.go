//go:build verif

package main

import (
	"crypto/tls"
	"crypto/x509"
	"fmt"
	"io"
	"net"
	"sort"
	"strconv"
	"strings"
	"sync"
	"time"

	dto "github.com/prometheus/client_model/go"
)

// one connection of a given kind against the running stack; returns when the client side is done
func metricsConn(e *e2eEnv, kind string, r *rng) {
	switch kind {
	case "badrecver-h2", "badrecver-h1":
		// a hello whose legacy_record_version is outside 0x0300..0x0304: crypto/tls completes the handshake, the ClientHello
		// capture rejects the record: one connection, to be counted once, as failed with an empty protocol
		c, err := net.DialTimeout("tcp", e.addr, 3*time.Second)
		if err != nil {
			return
		}
		alpn := []string{"h2", "http/1.1"}
		if kind == "badrecver-h1" {
			alpn = []string{"http/1.1"}
		}
		tc := tls.Client(&verConn{Conn: c, ver: 0x0305}, &tls.Config{InsecureSkipVerify: true, NextProtos: alpn})
		tc.SetDeadline(time.Now().Add(3 * time.Second))
		if tc.Handshake() == nil {
			io.ReadAll(tc)
		}
		c.Close()
	case "reject-cert-h2", "reject-cert-h1":
		// the client offers ALPN, the server picks a protocol while it processes the hello, then the client refuses the
		// certificate: a failed handshake, to be counted as ok="0" with an EMPTY protocol
		c, err := net.DialTimeout("tcp", e.addr, 3*time.Second)
		if err != nil {
			return
		}
		alpn := []string{"h2", "http/1.1"}
		if kind == "reject-cert-h1" {
			alpn = []string{"http/1.1"}
		}
		tc := tls.Client(c, &tls.Config{ServerName: "example.test", NextProtos: alpn, RootCAs: x509.NewCertPool()})
		tc.SetDeadline(time.Now().Add(3 * time.Second))
		tc.Handshake()
		c.Close()
	case "h2", "h1", "noalpn", "abort-after-h1", "abort-after-h2", "rst-after-h1", "rst-after-h2":
		cc := clientCfg{kind: "go", sni: "example.test", peer: "127.0.0.1"}
		switch kind {
		case "h2", "abort-after-h2", "rst-after-h2":
			cc.alpn = []string{"h2", "http/1.1"}
		case "h1", "abort-after-h1", "rst-after-h1":
			cc.alpn = []string{"http/1.1"}
		}
		conn, rc, neg, err := dialProxy(e, cc)
		if err != nil {
			return
		}
		if strings.HasPrefix(kind, "abort-after") {
			conn.Close()
			return
		}
		req := []e2eReq{{method: "GET", path: "/", host: "example.test", order: "mspa", tag: fmt.Sprintf("m%d", r.u64())}}
		if neg == "h2" {
			h2Exchange(conn, []string{"S:", "H:1.1.-.0.0"}, req)
		} else {
			h1Exchange(conn, req)
		}
		if strings.HasPrefix(kind, "rst-after") {
			// the client vanishes with a TCP reset after a served exchange: the proxy cannot even send close_notify
			if rc != nil {
				if t, ok := rc.Conn.(*net.TCPConn); ok {
					t.SetLinger(0)
					t.Close()
					return
				}
			}
		}
		conn.Close()
	case "plainhttp":
		c, err := net.DialTimeout("tcp", e.addr, 3*time.Second)
		if err != nil {
			return
		}
		io.WriteString(c, "GET / HTTP/1.1\r\nHost: x\r\n\r\n")
		c.SetReadDeadline(time.Now().Add(3 * time.Second))
		io.ReadAll(c)
		c.Close()
	case "garbage":
		c, err := net.DialTimeout("tcp", e.addr, 3*time.Second)
		if err != nil {
			return
		}
		c.Write(r.bytes(r.rangeI(1, 300)))
		c.SetReadDeadline(time.Now().Add(3 * time.Second))
		io.ReadAll(c)
		c.Close()
	case "abort-hello":
		c, err := net.DialTimeout("tcp", e.addr, 3*time.Second)
		if err != nil {
			return
		}
		h := genHello(r)
		rec := h.Record()
		c.Write(rec[:r.rangeI(1, len(rec)-1)])
		c.Close()
	case "connect-close":
		// a peer that connects and leaves without a byte (TCP health check, port scan): a clean FIN before any record
		c, err := net.DialTimeout("tcp", e.addr, 3*time.Second)
		if err != nil {
			return
		}
		c.Close()
	case "hello-close", "hello-halfclose":
		// a complete, valid ClientHello and then a clean close at the record boundary, before the client's Finished
		c, err := net.DialTimeout("tcp", e.addr, 3*time.Second)
		if err != nil {
			return
		}
		tc := tls.Client(&leaveOnRead{Conn: c, half: kind == "hello-halfclose"}, &tls.Config{InsecureSkipVerify: true, NextProtos: []string{"h2", "http/1.1"}})
		tc.Handshake()
		if kind == "hello-halfclose" {
			c.SetReadDeadline(time.Now().Add(3 * time.Second))
			io.ReadAll(c)
		}
		c.Close()
	case "stall":
		c, err := net.DialTimeout("tcp", e.addr, 3*time.Second)
		if err != nil {
			return
		}
		c.SetReadDeadline(time.Now().Add(5 * time.Second))
		io.ReadAll(c) // the proxy must cut us after the handshake timeout
		c.Close()
	case "tls10":
		c, err := net.DialTimeout("tcp", e.addr, 3*time.Second)
		if err != nil {
			return
		}
		tc := tls.Client(c, &tls.Config{InsecureSkipVerify: true, MinVersion: tls.VersionTLS10, MaxVersion: tls.VersionTLS11})
		tc.Handshake()
		c.Close()
	}
}

// leaveOnRead lets the TLS client write its ClientHello and leaves the moment it wants to read the server's answer
type leaveOnRead struct {
	net.Conn
	half bool
}

func (l *leaveOnRead) Read(b []byte) (int, error) {
	if tc, ok := l.Conn.(*net.TCPConn); ok && l.half {
		tc.CloseWrite()
	} else {
		l.Conn.Close()
	}
	return 0, io.EOF
}

func gatherRequestsTotal(e *e2eEnv) map[string]int {
	out := map[string]int{}
	mfs, err := e.stack.Registry.Gather()
	if err != nil {
		return out
	}
	for _, mf := range mfs {
		if mf.GetName() != "fingerproxy_requests_total" {
			continue
		}
		for _, m := range mf.Metric {
			out[labelKey(m)] = int(m.GetCounter().GetValue())
		}
	}
	return out
}

func labelKey(m *dto.Metric) string {
	ok, proto := "", ""
	for _, l := range m.Label {
		if l.GetName() == "ok" {
			ok = l.GetValue()
		}
		if l.GetName() == "negotiated_protocol" {
			proto = l.GetValue()
		}
	}
	return ok + "/" + proto
}

func init() {
	// metrics conns=<kind,kind,...> hto=<ms>: run the connections concurrently, wait for every accepted
	// connection to be closed by the proxy, report the counter vector.
	registerOp("metrics", func(a []string) string {
		var kinds, held []string
		hto := 400
		for _, t := range a {
			if strings.HasPrefix(t, "conns=") {
				kinds = strings.Split(t[6:], ",")
			} else if strings.HasPrefix(t, "hto=") {
				hto, _ = strconv.Atoi(t[4:])
			} else if strings.HasPrefix(t, "hold=") && len(t) > 5 {
				held = strings.Split(t[5:], ",")
			}
		}
		o := defaultE2EOpts()
		o.TLSHandshakeTimeout = fmt.Sprintf("%dms", hto)
		env := newE2EEnv(o)
		defer env.close()
		var wg sync.WaitGroup
		seed := newRng(uint64(len(kinds))*7919 + uint64(hto))
		for _, k := range kinds {
			wg.Add(1)
			go func(k string, r *rng) { defer wg.Done(); metricsConn(env, k, r) }(k, seed.fork())
		}
		wg.Wait()
		// settle: every accepted connection closed and the counter total equals the number of connections
		deadline := time.Now().Add(8 * time.Second)
		for time.Now().Before(deadline) {
			acc, closed := env.accepted.stats()
			total := 0
			for _, v := range gatherRequestsTotal(env) {
				total += v
			}
			if acc == len(kinds) && closed == acc && total >= len(kinds) {
				break
			}
			time.Sleep(20 * time.Millisecond)
		}
		time.Sleep(30 * time.Millisecond) // a late double count would show up here
		vec := func() string {
			g := gatherRequestsTotal(env)
			var keys []string
			for k := range g {
				keys = append(keys, k)
			}
			sort.Strings(keys)
			var parts []string
			for _, k := range keys {
				parts = append(parts, fmt.Sprintf("%s=%d", k, g[k]))
			}
			return strings.Join(parts, ",")
		}
		mid := ""
		if len(held) > 0 {
			// connections that have been served and are STILL OPEN: a connection is counted when it ends, so the sample taken now
			// must not contain them; once they are closed it must
			var open []net.Conn
			for i, k := range held {
				alpn := []string{"http/1.1"}
				if k == "h2" {
					alpn = []string{"h2"}
				}
				conn, _, neg, err := dialProxy(env, clientCfg{kind: "go", sni: "example.test", alpn: alpn, peer: "127.0.0.1"})
				if err != nil {
					continue
				}
				req := []e2eReq{{method: "GET", path: "/", host: "example.test", order: "mspa", tag: fmt.Sprintf("held%d", i)}}
				if neg == "h2" {
					h2Exchange(conn, []string{"S:", "H:1.1.-.0.0"}, req)
				} else {
					h1Exchange(conn, req)
				}
				open = append(open, conn)
			}
			time.Sleep(150 * time.Millisecond)
			mid = " while-open:" + vec()
			for _, c := range open {
				c.Close()
			}
			deadline := time.Now().Add(5 * time.Second)
			for time.Now().Before(deadline) {
				acc, closed := env.accepted.stats()
				if closed == acc {
					break
				}
				time.Sleep(20 * time.Millisecond)
			}
			time.Sleep(50 * time.Millisecond)
		}
		g := gatherRequestsTotal(env)
		var keys []string
		for k := range g {
			keys = append(keys, k)
		}
		sort.Strings(keys)
		var parts []string
		for _, k := range keys {
			parts = append(parts, fmt.Sprintf("%s=%d", k, g[k]))
		}
		acc, closed := env.accepted.stats()
		return fmt.Sprintf("accepted=%d closed=%d %s%s", acc, closed, strings.Join(parts, " "), mid)
	})

	register("metrics", "requests_total: batches of concurrent connections with every outcome against the real stack", func(c *ctx) {
		kinds := []string{"h2", "h1", "noalpn", "plainhttp", "garbage", "abort-hello", "stall", "abort-after-h1", "abort-after-h2", "tls10",
			"reject-cert-h2", "reject-cert-h1", "rst-after-h1", "rst-after-h2", "badrecver-h2", "badrecver-h1", "connect-close", "hello-close", "hello-halfclose"}
		for i := 0; i < c.count; i++ {
			r := c.rng.fork()
			n := r.rangeI(1, 24)
			var ks []string
			for j := 0; j < n; j++ {
				k := kinds[r.intn(len(kinds))]
				ks = append(ks, k)
				c.tag("kind:" + k)
			}
			hold := ""
			if r.chance(1, 3) {
				hold = " hold=" + []string{"h1", "h2", "h1,h2", "h2,h2,h1"}[r.intn(4)]
				c.tag("held-open-while-sampling")
			}
			c.op(fmt.Sprintf("metrics conns=%s hto=%d%s", strings.Join(ks, ","), []int{300, 500}[r.intn(2)], hold))
		}
	})
}
