//go:build verif

// Command zzverif is the in-process correspondence harness. It is compiled INSIDE /repo's module through
// `go build -overlay` (nothing is written under /repo) so that it links the working tree's packages.
//
//	zzverif gen <stream> <seed> <count> <outdir>   generate operations of a stream and execute them
//	zzverif exec <name> <opsfile> <outdir>          execute the operations of a file (corpus, replays)
//
// Both write <outdir>/<name>.ops (one self-contained operation per line, the input of the Lean driver)
// and <outdir>/<name>.impl (the implementation's canonicalised answer, one line per operation).
package main

import (
	"bufio"
	"fmt"
	"io"
	"log"
	"os"
	"path/filepath"
	"sort"
	"strconv"
	"strings"
)

type stream struct {
	name string
	run  func(*ctx)
	doc  string
}

var streams = map[string]*stream{}

func register(name, doc string, run func(*ctx)) { streams[name] = &stream{name, run, doc} }

// executors: operation keyword -> function running the REAL code on the operation's arguments.
var execs = map[string]func(args []string) string{}

func registerOp(cmd string, f func(args []string) string) { execs[cmd] = f }

// execOp runs one operation line against the implementation; a panic escaping an executor is an outcome.
func execOp(line string) (res string) {
	f := strings.Fields(line)
	if len(f) == 0 {
		return "bad-op"
	}
	e, ok := execs[f[0]]
	if !ok {
		return "bad-op"
	}
	defer func() {
		if r := recover(); r != nil {
			res = "panic"
		}
	}()
	return e(f[1:])
}

type ctx struct {
	rng   *rng
	count int
	tier  string
	ops   *bufio.Writer
	impl  *bufio.Writer
	n     int
	hist  map[string]int // input-distribution histogram, written to <stream>.dist
	// deferred: the operations are executed by another binary (the pkg/http2 test harness); only
	// the .ops file is meaningful.
	deferred bool
}

// op executes one operation against the implementation and records both.
func (c *ctx) op(line string) string {
	impl := "DEFERRED"
	if !c.deferred {
		impl = execOp(line)
	}
	c.ops.WriteString(line)
	c.ops.WriteByte('\n')
	c.impl.WriteString(impl)
	c.impl.WriteByte('\n')
	c.n++
	return impl
}

func (c *ctx) tag(k string) { c.hist[k]++ }

func main() {
	log.SetOutput(io.Discard) // the code under test logs per request; answers go to files
	if len(os.Args) >= 3 && os.Args[1] == "child" && os.Args[2] == "run" {
		log.SetOutput(os.Stderr)
		binsigChild(os.Args[3:])
		return
	}
	if len(os.Args) >= 3 && os.Args[1] == "child" && os.Args[2] == "survive" {
		fmt.Println(surviveChild(os.Args[3:]))
		return
	}
	if len(os.Args) < 5 || (os.Args[1] != "gen" && os.Args[1] != "exec") {
		names := []string{}
		for n := range streams {
			names = append(names, n)
		}
		sort.Strings(names)
		for _, n := range names {
			fmt.Printf("%-14s %s\n", n, streams[n].doc)
		}
		os.Exit(2)
	}
	mode := os.Args[1]
	var name, out string
	var s *stream
	var seed uint64
	var count int
	var lines []string
	if mode == "gen" {
		var ok bool
		s, ok = streams[os.Args[2]]
		if !ok || len(os.Args) < 6 {
			fmt.Fprintln(os.Stderr, "unknown stream", os.Args[2])
			os.Exit(2)
		}
		name = s.name
		seed, _ = strconv.ParseUint(os.Args[3], 10, 64)
		count, _ = strconv.Atoi(os.Args[4])
		out = os.Args[5]
	} else {
		name = os.Args[2]
		b, err := os.ReadFile(os.Args[3])
		if err != nil {
			panic(err)
		}
		for _, l := range strings.Split(string(b), "\n") {
			if strings.TrimSpace(l) != "" && !strings.HasPrefix(l, "#") {
				lines = append(lines, l)
			}
		}
		out = os.Args[4]
	}
	os.MkdirAll(out, 0o755)
	fo, err := os.Create(filepath.Join(out, name+".ops"))
	if err != nil {
		panic(err)
	}
	fi, err := os.Create(filepath.Join(out, name+".impl"))
	if err != nil {
		panic(err)
	}
	c := &ctx{rng: newRng(seed), count: count, tier: os.Getenv("VERIF_TIER"),
		ops: bufio.NewWriterSize(fo, 1<<20), impl: bufio.NewWriterSize(fi, 1<<20), hist: map[string]int{}}
	if mode == "gen" {
		s.run(c)
	} else {
		for _, l := range lines {
			c.op(l)
		}
	}
	c.ops.Flush()
	c.impl.Flush()
	fo.Close()
	fi.Close()
	fd, _ := os.Create(filepath.Join(out, name+".dist"))
	keys := []string{}
	for k := range c.hist {
		keys = append(keys, k)
	}
	sort.Strings(keys)
	for _, k := range keys {
		fmt.Fprintf(fd, "%s %d\n", k, c.hist[k])
	}
	fd.Close()
	fmt.Printf("name=%s ops=%d\n", name, c.n)
}
