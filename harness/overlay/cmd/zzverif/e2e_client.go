//go:build verif

package main

import (
	"bufio"
	"bytes"
	"crypto/md5"
	"crypto/tls"
	"crypto/x509"
	"errors"
	"fmt"
	"io"
	"net"
	"net/http"
	"strconv"
	"strings"
	"sync"
	"time"

	utls "github.com/refraction-networking/utls"
	"github.com/wi1dcard/fingerproxy/pkg/http2"
	"golang.org/x/net/http2/hpack"
)

func sum(b []byte) string { return fmt.Sprintf("%x", md5.Sum(b)) }

// recConn records what the client wrote and can re-segment the first bytes of the stream.
type recConn struct {
	net.Conn
	mu    sync.Mutex
	wrote bytes.Buffer
	seg   int // 0 as is; 1 one byte at a time for the first 600 bytes; 2 three-byte pieces; 3 split after 5 bytes
	frag  int // > 0: the ClientHello (first write, one handshake record) goes out as TWO TLS records cut after `frag` payload bytes
	ccs   bool // the ClientHello is followed, in the same write, by a change_cipher_spec record (TLS 1.3 middlebox compatibility, sent early)
	sent  int
}

func (c *recConn) Write(b []byte) (int, error) {
	c.mu.Lock()
	if c.wrote.Len() < 80000 {
		c.wrote.Write(b)
	}
	start := c.sent
	c.sent += len(b)
	seg := c.seg
	frag := c.frag
	c.mu.Unlock()
	if c.ccs && start == 0 && len(b) > 5 && b[0] == 22 {
		out := append(append([]byte{}, b...), 0x14, 0x03, 0x03, 0x00, 0x01, 0x01)
		if _, err := c.Conn.Write(out); err != nil {
			return 0, err
		}
		return len(b), nil
	}
	if frag > 0 && start == 0 && len(b) > 5 && b[0] == 22 && 5+(int(b[3])<<8|int(b[4])) == len(b) && frag < len(b)-5 {
		// same handshake message, re-framed over two records (RFC 8446 5.1 allows it; crypto/tls accepts it)
		p := b[5:]
		var out []byte
		out = append(out, 22, b[1], b[2], byte(frag>>8), byte(frag))
		out = append(out, p[:frag]...)
		rest := len(p) - frag
		out = append(out, 22, b[1], b[2], byte(rest>>8), byte(rest))
		out = append(out, p[frag:]...)
		if _, err := c.Conn.Write(out); err != nil {
			return 0, err
		}
		return len(b), nil
	}
	if seg == 0 || start > 600 {
		return c.Conn.Write(b)
	}
	step := map[int]int{1: 1, 2: 3, 3: 5}[seg]
	n := 0
	for n < len(b) {
		k := step
		if seg == 3 && n > 0 {
			k = len(b) - n
		}
		if n+k > len(b) || start+n > 600 {
			k = len(b) - n
		}
		m, err := c.Conn.Write(b[n : n+k])
		n += m
		if err != nil {
			return n, err
		}
		if seg == 1 && n%16 == 0 {
			time.Sleep(50 * time.Microsecond) // let the kernel deliver separately now and then
		}
	}
	return n, nil
}

// firstRecord returns the first TLS record the client wrote (the ClientHello).
func (c *recConn) firstRecord() []byte {
	c.mu.Lock()
	defer c.mu.Unlock()
	b := c.wrote.Bytes()
	if len(b) < 5 {
		return nil
	}
	n := 5 + int(b[3])<<8 | int(b[4])
	n = 5 + (int(b[3])<<8 | int(b[4]))
	if len(b) < n {
		return nil
	}
	return append([]byte{}, b[:n]...)
}

// parseHelloRecord: RFC-shaped parse of a ClientHello record into the structured form (harness-side,
// independent of tlsx/utls); ok=false when it is not a single-record well-formed hello.
func parseHelloRecord(rec []byte) (h *Hello, ok bool) {
	defer func() {
		if recover() != nil {
			h, ok = nil, false
		}
	}()
	if len(rec) < 5+4+2+32+1 || rec[0] != 22 {
		return nil, false
	}
	h = &Hello{RecVer: uint16(rec[1])<<8 | uint16(rec[2])}
	if 5+(int(rec[3])<<8|int(rec[4])) != len(rec) || rec[5] != 1 {
		return nil, false
	}
	hl := int(rec[6])<<16 | int(rec[7])<<8 | int(rec[8])
	b := rec[9:]
	if hl != len(b) {
		return nil, false
	}
	h.HsVer = uint16(b[0])<<8 | uint16(b[1])
	h.Random = b[2:34]
	b = b[34:]
	n := int(b[0])
	h.SID = b[1 : 1+n]
	b = b[1+n:]
	n = int(b[0])<<8 | int(b[1])
	h.Ciphers = toU16s(b[2 : 2+n])
	b = b[2+n:]
	n = int(b[0])
	h.Comp = b[1 : 1+n]
	b = b[1+n:]
	if len(b) == 0 {
		h.NoExts = true
		return h, true
	}
	n = int(b[0])<<8 | int(b[1])
	if n != len(b)-2 {
		return nil, false
	}
	b = b[2:]
	for len(b) > 0 {
		t := uint16(b[0])<<8 | uint16(b[1])
		l := int(b[2])<<8 | int(b[3])
		body := b[4 : 4+l]
		b = b[4+l:]
		e := Ext{Kind: "raw", Type: t, Bytes: body}
		func() {
			defer func() { recover() }() // malformed structured body: keep it raw
			switch t {
			case 0:
				ll := int(body[0])<<8 | int(body[1])
				lst := body[2:]
				if ll != len(lst) {
					return
				}
				var names [][]byte
				for len(lst) > 0 {
					nl := int(lst[1])<<8 | int(lst[2])
					names = append(names, append([]byte{lst[0]}, lst[3:3+nl]...))
					lst = lst[3+nl:]
				}
				e = Ext{Kind: "sni", Names: names}
			case 10, 13:
				ll := int(body[0])<<8 | int(body[1])
				if ll != len(body)-2 || ll%2 != 0 {
					return
				}
				k := "grp"
				if t == 13 {
					k = "sig"
				}
				e = Ext{Kind: k, U16s: toU16s(body[2:])}
			case 43:
				if int(body[0]) != len(body)-1 || len(body)%2 != 1 {
					return
				}
				e = Ext{Kind: "ver", U16s: toU16s(body[1:])}
			case 11:
				if int(body[0]) != len(body)-1 {
					return
				}
				e = Ext{Kind: "pts", Bytes: body[1:]}
			case 16:
				ll := int(body[0])<<8 | int(body[1])
				lst := body[2:]
				if ll != len(lst) {
					return
				}
				var ps [][]byte
				for len(lst) > 0 {
					pl := int(lst[0])
					ps = append(ps, lst[1:1+pl])
					lst = lst[1+pl:]
				}
				e = Ext{Kind: "alpn", Strs: ps}
			}
		}()
		h.Exts = append(h.Exts, e)
	}
	return h, true
}

type clientCfg struct {
	kind    string // go | utls-chrome | utls-firefox | utls-safari | utls-ios | utls-random | utls-golang
	alpn    []string
	sni     string
	peer    string // local address to dial from (127.0.0.x or ::1)
	seg     int
	frag    int
	ccs     bool
	minVer  uint16
	maxVer  uint16
	ciphers []uint16
	curves  []tls.CurveID
	rndSet  bool // the client's random source yields the byte `rnd` forever (broken / deterministic RNG, replayed random)
	rnd     byte
}

// constReader is a random source that yields one byte value forever
type constReader byte

func (c constReader) Read(b []byte) (int, error) {
	for i := range b {
		b[i] = byte(c)
	}
	return len(b), nil
}

// dialProxy completes a real TLS handshake with the proxy and returns the connection, the recorder and the
// negotiated protocol.
func dialProxy(e *e2eEnv, c clientCfg) (net.Conn, *recConn, string, error) {
	d := net.Dialer{Timeout: 5 * time.Second}
	if c.peer != "" {
		d.LocalAddr = &net.TCPAddr{IP: net.ParseIP(c.peer)}
	}
	raw, err := d.Dial("tcp", e.addr)
	if err != nil {
		return nil, nil, "", err
	}
	rc := &recConn{Conn: raw, seg: c.seg, frag: c.frag, ccs: c.ccs}
	pool := x509.NewCertPool()
	pool.AppendCertsFromPEM(e.certPEM)
	raw.SetDeadline(time.Now().Add(20 * time.Second))
	if c.kind == "go" {
		cfg := &tls.Config{RootCAs: pool, ServerName: c.sni, NextProtos: c.alpn, MinVersion: c.minVer, MaxVersion: c.maxVer,
			CipherSuites: c.ciphers, CurvePreferences: c.curves}
		if c.rndSet {
			cfg.Rand = constReader(c.rnd)
		}
		if c.sni == "" {
			cfg.InsecureSkipVerify = true
		}
		tc := tls.Client(rc, cfg)
		if err := tc.Handshake(); err != nil {
			raw.Close()
			return nil, rc, "", err
		}
		return tc, rc, tc.ConnectionState().NegotiatedProtocol, nil
	}
	id := map[string]utls.ClientHelloID{"utls-chrome": utls.HelloChrome_120, "utls-firefox": utls.HelloFirefox_120,
		"utls-safari": utls.HelloSafari_16_0, "utls-ios": utls.HelloIOS_14, "utls-random": utls.HelloRandomized,
		"utls-golang": utls.HelloGolang, "utls-edge": utls.HelloEdge_106, "utls-chrome-pq": utls.HelloChrome_115_PQ,
		"utls-360": utls.Hello360_11_0, "utls-qq": utls.HelloQQ_11_1}[c.kind]
	ucfg := &utls.Config{ServerName: c.sni, InsecureSkipVerify: true, NextProtos: c.alpn}
	ipSNI := net.ParseIP(c.sni) != nil
	if ipSNI {
		// an IP literal in server_name (RFC 6066 forbids it, clients do it, crypto/tls accepts it): utls would omit the
		// extension, so the name is put in place below
		ucfg.ServerName = "placeholder.test"
	}
	uc := utls.UClient(rc, ucfg, id)
	if c.kind == "utls-nopf" {
		// a TLS 1.3 stack that sends no ec_point_formats extension (rustls and friends): the Firefox preset minus that extension
		spec, err := utls.UTLSIdToSpec(utls.HelloFirefox_120)
		if err != nil {
			raw.Close()
			return nil, rc, "", err
		}
		var keep []utls.TLSExtension
		for _, ext := range spec.Extensions {
			if _, ok := ext.(*utls.SupportedPointsExtension); !ok {
				keep = append(keep, ext)
			}
		}
		spec.Extensions = keep
		uc = utls.UClient(rc, ucfg, utls.HelloCustom)
		if err := uc.ApplyPreset(&spec); err != nil {
			raw.Close()
			return nil, rc, "", err
		}
	}
	if len(c.alpn) > 0 && c.kind != "utls-golang" {
		// keep the preset's extension order but offer exactly the requested protocols
		if err := uc.BuildHandshakeState(); err == nil {
			for _, ext := range uc.Extensions {
				if a, ok := ext.(*utls.ALPNExtension); ok {
					a.AlpnProtocols = c.alpn
				}
			}
		}
	}
	if ipSNI {
		if err := uc.BuildHandshakeState(); err == nil {
			for k, ext := range uc.Extensions {
				if _, ok := ext.(*utls.SNIExtension); ok {
					n := []byte(c.sni)
					d := []byte{byte((len(n) + 3) >> 8), byte(len(n) + 3), 0, byte(len(n) >> 8), byte(len(n))}
					uc.Extensions[k] = &utls.GenericExtension{Id: 0, Data: append(d, n...)}
				}
			}
		}
	}
	if err := uc.Handshake(); err != nil {
		raw.Close()
		return nil, rc, "", err
	}
	return uc, rc, uc.ConnectionState().NegotiatedProtocol, nil
}

type e2eReq struct {
	method, path, host, ua, order string
	hasUA                         bool
	extra                         [][2]string
	tag                           string
	body                          []byte
}

type e2eResp struct {
	status  int
	body    []byte
	header  http.Header
	trailer http.Header
	err     string
}

// h1Exchange sends the requests sequentially on one keep-alive HTTP/1.1 connection.
func h1Exchange(conn net.Conn, reqs []e2eReq) []e2eResp {
	br := bufio.NewReader(conn)
	var out []e2eResp
	for _, r := range reqs {
		var sb strings.Builder
		p := r.path
		if p == "" {
			p = "/"
		}
		fmt.Fprintf(&sb, "%s %s HTTP/1.1\r\nHost: %s\r\n", r.method, p, r.host)
		if r.hasUA {
			fmt.Fprintf(&sb, "User-Agent: %s\r\n", r.ua)
		}
		fmt.Fprintf(&sb, "X-Verif-Tag: %s\r\n", r.tag)
		for _, h := range r.extra {
			fmt.Fprintf(&sb, "%s: %s\r\n", h[0], h[1])
		}
		if len(r.body) > 0 || r.method == "POST" || r.method == "PUT" {
			fmt.Fprintf(&sb, "Content-Length: %d\r\n", len(r.body))
		}
		sb.WriteString("\r\n")
		if _, err := io.WriteString(conn, sb.String()); err != nil {
			out = append(out, e2eResp{err: "write:" + err.Error()})
			return out
		}
		if len(r.body) > 0 {
			conn.Write(r.body)
		}
		resp, err := http.ReadResponse(br, &http.Request{Method: r.method})
		if err != nil {
			out = append(out, e2eResp{err: "read:" + err.Error()})
			return out
		}
		b, _ := io.ReadAll(resp.Body)
		resp.Body.Close()
		out = append(out, e2eResp{status: resp.StatusCode, body: b, header: resp.Header, trailer: resp.Trailer})
	}
	return out
}

// h2Exchange plays a frame script (grammar of s_h2srv.go; an H token's 4th field is the request index)
// over a raw HTTP/2 connection and collects the responses per stream.
// tlsInadequateForH2: the negotiated TLS parameters are ones RFC 7540 9.2 lets an HTTP/2 server refuse (and this server
// does, with GOAWAY(INADEQUATE_SECURITY) and a close): TLS below 1.2, or a TLS 1.2 suite outside ephemeral key exchange
// + AEAD. (Of the suites Go's TLS server can select, exactly these six are acceptable to HTTP/2.)
func tlsInadequateForH2(conn net.Conn) bool {
	var ver, suite uint16
	switch c := conn.(type) {
	case *tls.Conn:
		ver, suite = c.ConnectionState().Version, c.ConnectionState().CipherSuite
	case *utls.UConn:
		ver, suite = c.ConnectionState().Version, c.ConnectionState().CipherSuite
	default:
		return false
	}
	if ver >= tls.VersionTLS13 {
		return false
	}
	if ver < tls.VersionTLS12 {
		return true
	}
	switch suite {
	case 0xc02b, 0xc02c, 0xc02f, 0xc030, 0xcca8, 0xcca9:
		return false
	}
	return true
}

func h2Exchange(conn net.Conn, toks []string, reqs []e2eReq) (map[uint32]*e2eResp, error) {
	if _, err := io.WriteString(conn, http2.ClientPreface); err != nil {
		return nil, err
	}
	fr := http2.NewFramer(conn, conn)
	var hbuf bytes.Buffer
	enc := hpack.NewEncoder(&hbuf)
	dec := hpack.NewDecoder(4096, nil)
	resps := map[uint32]*e2eResp{}
	want := map[uint32]bool{}
	var wmu sync.Mutex
	for _, tk := range toks {
		kind, rest := tk[:1], ""
		if len(tk) > 2 {
			rest = tk[2:]
		}
		p := strings.Split(rest, ".")
		u := func(s string) uint32 { v, _ := strconv.ParseUint(s, 10, 32); return uint32(v) }
		wmu.Lock()
		var err error
		switch kind {
		case "S":
			var ss []http2.Setting
			if rest != "" {
				for _, e := range strings.Split(rest, ";") {
					q := strings.Split(e, ".")
					ss = append(ss, http2.Setting{ID: http2.SettingID(u(q[0])), Val: u(q[1])})
				}
			}
			err = fr.WriteSettings(ss...)
		case "A":
			err = fr.WriteSettingsAck()
		case "W":
			err = fr.WriteWindowUpdate(u(p[0]), u(p[1]))
		case "P":
			err = fr.WritePriority(u(p[0]), http2.PriorityParam{StreamDep: u(p[1]), Exclusive: p[2] == "1", Weight: uint8(u(p[3]))})
		case "G":
			err = fr.WritePing(false, [8]byte{9})
		case "H":
			id := u(p[0])
			ri, _ := strconv.Atoi(p[3])
			r := reqs[ri]
			var prio http2.PriorityParam
			if p[2] != "-" {
				q := strings.Split(p[2], "_")
				prio = http2.PriorityParam{StreamDep: u(q[0]), Exclusive: q[1] == "1", Weight: uint8(u(q[2]))}
			}
			hbuf.Reset()
			path := r.path
			if path == "" {
				path = "/"
			}
			for _, c := range r.order {
				switch c {
				case 'm':
					enc.WriteField(hpack.HeaderField{Name: ":method", Value: r.method})
				case 's':
					enc.WriteField(hpack.HeaderField{Name: ":scheme", Value: "https"})
				case 'h': // a client may legally say :scheme http on a TLS connection
					enc.WriteField(hpack.HeaderField{Name: ":scheme", Value: "http"})
				case 'p':
					enc.WriteField(hpack.HeaderField{Name: ":path", Value: path})
				case 'a':
					enc.WriteField(hpack.HeaderField{Name: ":authority", Value: r.host})
				}
			}
			if !strings.Contains(r.order, "a") {
				enc.WriteField(hpack.HeaderField{Name: "host", Value: r.host})
			}
			if r.hasUA {
				enc.WriteField(hpack.HeaderField{Name: "user-agent", Value: r.ua})
			}
			enc.WriteField(hpack.HeaderField{Name: "x-verif-tag", Value: r.tag})
			for _, h := range r.extra {
				enc.WriteField(hpack.HeaderField{Name: strings.ToLower(h[0]), Value: h[1]})
			}
			if len(r.body) > 0 {
				enc.WriteField(hpack.HeaderField{Name: "content-length", Value: strconv.Itoa(len(r.body))})
			}
			block := append([]byte{}, hbuf.Bytes()...)
			cont, _ := strconv.Atoi(p[4])
			nfrag := cont + 1
			if nfrag > len(block) {
				nfrag = len(block)
			}
			es := len(r.body) == 0
			var frags [][]byte
			for i := 0; i < nfrag; i++ {
				frags = append(frags, block[i*len(block)/nfrag:(i+1)*len(block)/nfrag])
			}
			if p[2] != "-" && prio.IsZero() {
				// PRIORITY flag with an all-zero priority block: only a raw frame can say that
				var fl http2.Flags = http2.FlagHeadersPriority
				if es {
					fl |= http2.FlagHeadersEndStream
				}
				if len(frags) == 1 {
					fl |= http2.FlagHeadersEndHeaders
				}
				err = fr.WriteRawFrame(http2.FrameHeaders, fl, id, append([]byte{0, 0, 0, 0, 0}, frags[0]...))
			} else {
				err = fr.WriteHeaders(http2.HeadersFrameParam{StreamID: id, BlockFragment: frags[0], EndStream: es, EndHeaders: len(frags) == 1, Priority: prio})
			}
			for i := 1; i < len(frags) && err == nil; i++ {
				err = fr.WriteContinuation(id, i == len(frags)-1, frags[i])
			}
			if !es && err == nil {
				err = fr.WriteData(id, true, r.body)
			}
			want[id] = true
			resps[id] = &e2eResp{header: http.Header{}}
		}
		wmu.Unlock()
		if err != nil {
			// the server may have refused the connection (GOAWAY) and closed it while we were still writing
			conn.SetReadDeadline(time.Now().Add(300 * time.Millisecond))
			for {
				f, rerr := fr.ReadFrame()
				if rerr != nil {
					break
				}
				if g, ok := f.(*http2.GoAwayFrame); ok {
					return resps, errors.New("goaway:" + g.ErrCode.String())
				}
			}
			return resps, err
		}
	}
	// read until every request stream ended
	done := 0
	for done < len(want) {
		f, err := fr.ReadFrame()
		if err != nil {
			return resps, err
		}
		switch f := f.(type) {
		case *http2.SettingsFrame:
			if !f.IsAck() {
				wmu.Lock()
				fr.WriteSettingsAck()
				wmu.Unlock()
			}
		case *http2.HeadersFrame:
			r := resps[f.StreamID]
			if r == nil {
				continue
			}
			fields, err := dec.DecodeFull(f.HeaderBlockFragment())
			if err != nil {
				return resps, err
			}
			for _, hf := range fields {
				if hf.Name == ":status" {
					r.status, _ = strconv.Atoi(hf.Value)
				} else {
					r.header.Add(hf.Name, hf.Value)
				}
			}
			if f.StreamEnded() {
				done++
			}
		case *http2.DataFrame:
			r := resps[f.StreamID]
			if r != nil {
				r.body = append(r.body, f.Data()...)
				if f.StreamEnded() {
					done++
				}
			}
			// no WINDOW_UPDATE is sent for received data: responses in these scenarios are far below the
			// initial windows, and a frame of the harness's own would become part of the fingerprint
		case *http2.RSTStreamFrame:
			if r := resps[f.StreamID]; r != nil {
				r.err = "rst:" + f.ErrCode.String()
				done++
			}
		case *http2.GoAwayFrame:
			return resps, errors.New("goaway:" + f.ErrCode.String())
		}
	}
	return resps, nil
}
